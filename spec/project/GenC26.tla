------------------------------- MODULE GenC26 -------------------------------
(* C26, spec -> impl: the STATES are (program, persisted-documents configuration) pairs.  Programs are
   a base program (component User.Card, field Query.Home + entrypoint) plus a set of at most MaxFeat
   features, each adding entrypoints and / or refetch queries (imperatively loaded fields); the
   transitions add a feature or change one field of the configuration
   {algorithm: md5 | sha256, include_extra_info, file: default | custom name}.
   Every state is compiled twice by the driver (option off / on) and judged by ObsC26.tla.      *)
EXTENDS IsoProgram

CONSTANTS MaxFeat

FeatureNames == << "pet", "loadable", "mutation", "refetch", "expose", "twin", "vars", "lazyEp", "strings" >>
FeatureSet == {FeatureNames[i] : i \in DOMAIN FeatureNames}

EntrypointD(on, name, dir) == [k |-> "entrypoint", on |-> on, name |-> name, dirs |-> <<[name |-> dir, args |-> <<>>]>>]

HomeSels == << Linked("me", <<Scalar("Card")>>),
               LinkedA("pets", "", << <<"first", IntV("2")>> >>, <<Scalar("nickname")>>) >>

Base == << Component("User", "Card", <<>>, <<Scalar("name"), Scalar("age"), ScalarA("score", "", << <<"round", BoolV(TRUE)>> >>)>>),
           Field("Query", "Home", <<>>, HomeSels),
           Entrypoint("Query", "Home") >>

Feature(f) ==
  CASE f = "pet" ->        \* a second, independent entrypoint
         << Field("Pet", "Tag", <<>>, <<Scalar("nickname"), Scalar("kind")>>),
            Component("Query", "PetList", <<>>, << Linked("pets", <<Scalar("Tag")>>) >>),
            Entrypoint("Query", "PetList") >>
    [] f = "loadable" ->   \* @loadable: User.Card becomes an entrypoint of its own (node refetch query)
         << Field("Query", "Lazy", <<>>, << Linked("me", <<WithDir(Scalar("Card"), "loadable")>>) >>),
            Entrypoint("Query", "Lazy") >>
    [] f = "mutation" ->   \* a mutation with variables
         << Field("Mutation", "SetName",
                  << VarDef("id", NonNull(Named("ID"))), VarDef("name", NonNull(Named("String"))) >>,
                  << LinkedA("setName", "", << <<"id", Var("id")>>, <<"name", Var("name")>> >>, <<Scalar("name")>>) >>),
            Entrypoint("Mutation", "SetName") >>
    [] f = "refetch" ->    \* __refetch: a refetch query artifact under the entrypoint
         << Field("Pet", "Tag2", <<>>, <<Scalar("nickname"), Scalar("__refetch")>>),
            Field("Query", "Refetchy", <<>>, << Linked("pets", <<Scalar("Tag2")>>) >>),
            Entrypoint("Query", "Refetchy") >>
    [] f = "expose" ->     \* @exposeField fields: a mutation and a query refetch artifact
         << Field("Pet", "Feeder", <<>>, <<Scalar("nickname"), Scalar("feed")>>),
            Field("Query", "Feedy", <<>>, << Linked("pets", <<Scalar("Feeder")>>), Linked("topPet", <<Scalar("refetchPet")>>) >>),
            Entrypoint("Query", "Feedy") >>
    [] f = "twin" ->       \* the same selections under another name
         << Field("Query", "HomeTwin", <<>>, HomeSels), Entrypoint("Query", "HomeTwin") >>
    [] f = "vars" ->       \* a query with a variable and a default value
         << Field("Query", "UserById", << VarDef("id", NonNull(Named("ID"))), VarDefD("n", Named("Int"), IntV("3")) >>,
                  << LinkedA("user", "", << <<"id", Var("id")>> >>,
                             << Scalar("name"), LinkedA("pets", "", << <<"first", Var("n")>> >>, <<Scalar("nickname")>>) >>) >>),
            Entrypoint("Query", "UserById") >>
    [] f = "strings" ->    \* string values in which white space is SIGNIFICANT (runs of blanks, leading / trailing blanks), as an
                           \* argument and as a variable default (added after seeded/C26-persisted-text-derived-by-split-whitespace)
         << Field("Query", "Spaced", << VarDefD("s", Named("String"), StrV(<<112, 32, 32, 113>>)) >>,
                  << LinkedA("search", "", << <<"text", StrV(<<32, 97, 32, 32, 98, 32>>)>> >>, <<Linked("asUser", <<Scalar("name")>>)>>),
                     LinkedA("pets", "sp", << <<"after", Var("s")>> >>, <<Scalar("nickname")>>) >>),
            Entrypoint("Query", "Spaced") >>
    [] f = "lazyEp" ->     \* a lazily loaded entrypoint
         << Field("Query", "Late", <<>>, << Linked("topPet", <<Scalar("nickname")>>) >>),
            EntrypointD("Query", "Late", "lazyLoad") >>

VARIABLES feats, cfg
vars == <<feats, cfg>>

Init == feats = {} /\ cfg = [algorithm |-> "md5", extra |-> FALSE, file |-> "default"]

AddFeature   == /\ Cardinality(feats) < MaxFeat
                /\ \E f \in FeatureSet \ feats : feats' = feats \cup {f}
                /\ UNCHANGED cfg
SetAlgorithm == /\ cfg' = [cfg EXCEPT !.algorithm = IF @ = "md5" THEN "sha256" ELSE "md5"]
                /\ UNCHANGED feats
SetExtraInfo == /\ cfg' = [cfg EXCEPT !.extra = ~@]
                /\ UNCHANGED feats
SetFile      == /\ cfg' = [cfg EXCEPT !.file = IF @ = "default" THEN "my_docs.json" ELSE "default"]
                /\ UNCHANGED feats

Next == AddFeature \/ SetAlgorithm \/ SetExtraInfo \/ SetFile
Spec == Init /\ [][Next]_vars

Ordered == SelectSeq(FeatureNames, LAMBDA f : f \in feats)
RECURSIVE Cat(_)
Cat(fs) == IF fs = <<>> THEN Base ELSE Cat(SubSeq(fs, 1, Len(fs) - 1)) \o Feature(fs[Len(fs)])
RECURSIVE Join(_)
Join(s) == IF s = <<>> THEN "" ELSE "+" \o Head(s) \o Join(Tail(s))

Emit == PrintT(<<"PROGRAM", ToJson([program |-> "base" \o Join(Ordered), feats |-> Ordered, decls |-> Cat(Ordered), cfg |-> cfg])>>)
=============================================================================
