------------------------------- MODULE ObsC16 -------------------------------
(* C16 (layer A): within the modelled subset (Validity!InSubset)

       Rejected(P) <=> ~Valid(P)

   i.e. a program that breaks one of the rules of the property statement is rejected with at least
   one diagnostic, and a program that breaks none compiles without diagnostics.  Valid(P) is
   evaluated HERE, by TLC, on the abstract program carried in the record (Validity.tla is the
   reference; the generator's tag `rule` is only reported).  A crash is neither an acceptance nor a
   rejection with a diagnostic.

   One record per compiled project:  [id, prog, rule, outcome, ndiag]. *)
EXTENDS Validity, IOUtils

CONSTANT TraceFile       \* path of the ndjson observations (a constant, so TLC reads it once)
Rec == ndJsonDeserialize(TraceFile)

VARIABLE l
Init == l = 1

Rejected(r) == r.outcome = "diagnostics" /\ r.ndiag >= 1
Accepted(r) == r.outcome = "ok"

Why(r) ==
  IF ~InSubset(r.prog) THEN "outside-subset"
  ELSE IF Valid(r.prog)
    THEN (IF Accepted(r) THEN "" ELSE IF Rejected(r) THEN "valid-rejected" ELSE "valid-crashed")
    ELSE (IF Rejected(r) THEN "" ELSE IF Accepted(r) THEN "invalid-accepted"
          ELSE IF r.outcome = "diagnostics" THEN "invalid-failed-without-diagnostic" ELSE "invalid-crashed")

SetToSeq(S) == LET RECURSIVE F(_) F(X) == IF X = {} THEN <<>> ELSE LET x == CHOOSE y \in X : TRUE IN <<x>> \o F(X \ {x}) IN F(S)

Next == /\ l <= Len(Rec)
        /\ l' = l + 1
        /\ LET r == Rec[l] w == Why(Rec[l])
           IN IF w = "" THEN TRUE
              ELSE PrintT(<<"BAD", ToJson([id |-> r.id, why |-> w, broken |-> SetToSeq(IF w = "outside-subset" THEN {} ELSE Broken(r.prog)), outcome |-> r.outcome])>>)

Spec == Init /\ [][Next]_l

AllConsumed == TLCGet("stats").diameter = Len(Rec) + 1
=============================================================================
