------------------------------ MODULE GenC10 ------------------------------
(* Generator for C10: the STATES are programs whose readers reach server fields through chains of client fields
   with argument / variable substitution along the chain.

     Pet.Leaf($u: String)          eager field: weight(unit: $u), nickname
     User.Mini($m: Int)            eager field: pets(first: $m) { id }                       (nested in Card)
     User.favPet                   client pointer to Pet whose resolver reads bestPet { __link }
     User.Card($n: Int, $u: String [= "kg"])   component: an ordered choice of 1..MaxCard `CardOptions`
     Query.Home($id, $k, $s)       entrypoint: an ordered choice of 1..MaxUses `HomeOptions`

   Features: literals and variables passed down one and two levels, a variable with a DEFAULT value that a use
   omits, an omitted nullable argument without default, aliases, the same server field with different arguments
   in sibling selections and sibling client fields, the same client field used twice with different arguments,
   interface and union positions with asX refinements, nested object arguments, a client pointer, imperatively
   loaded and loadable boundaries.
   variables inside object arguments (reached by a literal / a variable of the parent; an object literal with variables
   passed to a client field).
   Not generated (the pinned compiler panics — reported as C08 findings): an entrypoint variable used as a client
   field argument inside an asX refinement; a client field parameter of a recursive input object type. *)
EXTENDS IsoProgram

CONSTANTS MaxCard, MaxUses, CardChoice, HomeChoice,
          Mutations,    \* subset of {0, 1, 2}; 1: the program also has a Mutation entrypoint (objects without id: parent-path
                        \* store keys); 2: a Mutation entrypoint that passes an object literal with variables to a client field;
                        \* 3: a Mutation entrypoint that selects an object WITHOUT id with an EMPTY selection set
          Defaults      \* subset of {0, 1}; 1: Card declares $u with a default value and some uses omit it

N == Var("n")
U == Var("u")
Str(cps) == StrV(cps)
KG == StrV(<<107, 103>>)
LB == StrV(<<108, 98>>)

CardOptions ==
  << Scalar("name"),                                                                                   \* 1
     ScalarA("age", "a", <<>>),                                                                         \* 2
     Linked("bestPet", <<Scalar("nickname"), ScalarA("Leaf", "", << <<"u", U>> >>)>>),                     \* 3  variable passed down a second level
     LinkedA("pets", "", << <<"first", N>> >>, <<Scalar("kind"), ScalarA("Leaf", "", << <<"u", KG>> >>)>>),   \* 4  variable argument + literal passed down
     LinkedA("pets", "p2", << <<"first", IntV("2")>> >>, <<Scalar("nickname")>>),                          \* 5  same field, other argument
     ScalarA("score", "", << <<"scale", IntV("2")>>, <<"round", BoolV(TRUE)>> >>),                         \* 6
     Linked("friends", <<Scalar("name"), ScalarA("Mini", "", << <<"m", IntV("4")>> >>)>>),                  \* 7  nullable list of nullable + nested field
     ScalarA("Mini", "", << <<"m", N>> >>),                                                              \* 8  nested client field, variable passed on
     ScalarA("Mini", "mini7", << <<"m", IntV("7")>> >>),                                                  \* 9  same client field, other argument
     Linked("favPet", <<Scalar("nickname")>>),                                                          \* 10 client pointer
     Scalar("__refetch"),                                                                              \* 11 imperatively loaded boundary
     WithDir(ScalarA("Mini", "lm", << <<"m", IntV("1")>> >>), "loadable"),                                \* 12 loadable boundary
     ScalarA("Mini", "noarg", <<>>) >>                                                                  \* 13 nullable argument omitted

RECURSIVE ValUses(_, _)
ValUses(x, v) == x = v \/ (x.t = "obj" /\ \E j \in DOMAIN x.fields : ValUses(x.fields[j][2], v))
RECURSIVE UsesVarIn(_, _)
UsesVarIn(sels, v) == \E i \in DOMAIN sels : (\E j \in DOMAIN sels[i].args : ValUses(sels[i].args[j][2], v))
                                              \/ (IsLinkedSel(sels[i]) /\ UsesVarIn(sels[i].sels, v))
RECURSIVE UsesName(_, _)
UsesName(sels, name) == \E i \in DOMAIN sels : sels[i].name = name \/ (IsLinkedSel(sels[i]) /\ UsesName(sels[i].sels, name))

CardVars(cs, dflt) ==
  (IF UsesVarIn(cs, N) THEN <<VarDef("n", Named("Int"))>> ELSE <<>>)
  \o (IF UsesVarIn(cs, U) THEN (IF dflt THEN <<VarDefD("u", Named("String"), KG)>> ELSE <<VarDef("u", Named("String"))>>) ELSE <<>>)

\* a use of Card: n gets a, u gets b unless omitU (only variables Card declares are passed)
CardUse(alias, cs, a, b, omitU) ==
  ScalarA("Card", alias, (IF UsesVarIn(cs, N) THEN << <<"n", a>> >> ELSE <<>>)
                         \o (IF UsesVarIn(cs, U) /\ ~omitU THEN << <<"u", b>> >> ELSE <<>>))

K == Var("k")
ID == Var("id")
SV == Var("s")
HomeOptions(cs, dflt) ==
  << Linked("me", <<CardUse("", cs, IntV("1"), KG, dflt)>>),                                                          \* 1 literals (u omitted when it has a default)
     LinkedA("me", "me2", <<>>, <<CardUse("", cs, K, SV, FALSE)>>),                                                    \* 2 entrypoint variables
     LinkedA("user", "", << <<"id", ID>> >>, <<CardUse("", cs, K, LB, FALSE), CardUse("c2", cs, IntV("3"), SV, dflt)>>),   \* 3 two uses, different arguments
     LinkedA("node", "", << <<"id", ID>> >>,
             <<Scalar("id"), Linked("asUser", <<CardUse("", cs, IntV("2"), LB, FALSE)>>),
               Linked("asPet", <<ScalarA("Leaf", "", << <<"u", KG>> >>)>>)>>),                                         \* 4 interface + refinements
     LinkedA("search", "", << <<"text", StrV(<<97, 98>>)>> >>,
             <<Linked("asUser", <<Scalar("name")>>), Linked("asPet", <<ScalarA("Leaf", "", << <<"u", LB>> >>)>>)>>),    \* 5 union
     LinkedA("pets", "", << <<"first", IntV("1")>>, <<"filter", ObjV(<< <<"kind", NullV>>, <<"nested", ObjV(<< <<"minWeight", K>> >>)>> >>)>> >>,
             <<ScalarA("Leaf", "", << <<"u", SV>> >>)>>),                                                            \* 6 nested object argument with a variable
     Linked("topPet", <<Linked("owner", <<CardUse("", cs, K, SV, dflt)>>)>>),                                        \* 7 deeper
     LinkedA("me", "me8", <<>>, <<CardUse("", cs, NullV, NullV, FALSE)>>),                                           \* 8 null literals
     ScalarA("Lister", "", << <<"x", StrV(<<97, 98>>)>> >>),                                                          \* 9 literal reaching a variable INSIDE an object argument
     ScalarA("Lister", "l2", << <<"x", SV>> >>),                                                                      \* 10 variable reaching it
     \* 11-12 (added after seeded/C10-inline-fragment-not-transformed-with-parent-context): a parameterised client field
     \* defined on an INTERFACE whose parameter is used INSIDE an asX refinement of its own body; used with a variable of
     \* another name while the entrypoint also has a variable with the parameter's name (so a missing substitution stays
     \* valid GraphQL and silently fetches with the wrong variable), and with a literal
     LinkedA("node", "n11", << <<"id", ID>> >>,
             <<ScalarA("Refined", "", << <<"c", K>> >>), Linked("asUser", <<LinkedA("pets", "pc", << <<"first", Var("c")>> >>, <<Scalar("id")>>)>>)>>),   \* 11
     LinkedA("node", "n12", << <<"id", ID>> >>, <<ScalarA("Refined", "", << <<"c", IntV("3")>> >>)>>) >>                \* 12

HomeVars(hs) == (IF UsesVarIn(hs, ID) THEN <<VarDef("id", NonNull(Named("ID")))>> ELSE <<>>)
                \o (IF UsesVarIn(hs, K) THEN <<VarDef("k", Named("Int"))>> ELSE <<>>)
                \o (IF UsesVarIn(hs, SV) THEN <<VarDef("s", Named("String"))>> ELSE <<>>)
                \o (IF UsesVarIn(hs, Var("c")) THEN <<VarDef("c", Named("Int"))>> ELSE <<>>)

RECURSIVE SeqOfSet(_)
SeqOfSet(Q) == IF Q = {} THEN <<>> ELSE LET m == CHOOSE x \in Q : \A y \in Q : x <= y IN <<m>> \o SeqOfSet(Q \ {m})
Pick(s, t) == [i \in DOMAIN t |-> s[t[i]]]
Bounded(idx, max) == {t \in SubSeqs(idx) : Len(t) >= 1 /\ Len(t) <= max}

Programs ==
  { LET dflt == (dv = 1)
        cs == Pick(CardOptions, ct)
        hs == Pick(HomeOptions(cs, dflt), ht)
        needsLeaf == UsesName(cs, "Leaf") \/ UsesName(hs, "Leaf")
    IN Program((IF needsLeaf THEN <<Field("Pet", "Leaf", <<VarDef("u", Named("String"))>>,
                                          <<ScalarA("weight", "", << <<"unit", U>> >>), Scalar("nickname")>>)>> ELSE <<>>)
               \o (IF UsesName(cs, "Mini") THEN <<Field("User", "Mini", <<VarDef("m", Named("Int"))>>,
                                                       <<LinkedA("pets", "", << <<"first", Var("m")>> >>, <<Scalar("id")>>)>>)>> ELSE <<>>)
               \o (IF UsesName(hs, "Refined") THEN <<Field("Node", "Refined", <<VarDef("c", Named("Int"))>>,
                                                         <<Linked("asUser", <<LinkedA("pets", "", << <<"first", Var("c")>> >>, <<Scalar("id")>>)>>)>>)>> ELSE <<>>)
               \o (IF UsesName(hs, "Lister") THEN <<Field("Query", "Lister", <<VarDef("x", Named("String"))>>,
                                                        <<LinkedA("pets", "", << <<"filter", ObjV(<< <<"name", Var("x")>> >>)>> >>, <<Scalar("kind")>>)>>)>> ELSE <<>>)
               \o (IF UsesName(cs, "favPet") THEN <<Pointer("User", "favPet", "Pet", <<Linked("bestPet", <<Scalar("__link")>>)>>)>> ELSE <<>>)
               \o << Component("User", "Card", CardVars(cs, dflt), cs),
                     Component("Query", "Home", HomeVars(hs), hs),
                     Entrypoint("Query", "Home") >>
               \o (IF mv = 2 THEN << Field("Mutation", "Feeder", <<VarDef("i", NonNull(Named("FeedInput")))>>,
                                            <<LinkedA("feedPet", "", << <<"input", Var("i")>> >>, <<Scalar("ok")>>)>>),
                                     Component("Mutation", "DoFeed2", <<VarDef("p", NonNull(Named("ID"))), VarDef("a", Named("Int"))>>,
                                               <<ScalarA("Feeder", "", << <<"i", ObjV(<< <<"petId", Var("p")>>, <<"amount", Var("a")>> >>)>> >>)>>),
                                     Entrypoint("Mutation", "DoFeed2") >> ELSE <<>>)
               \o (IF mv = 3 THEN << Component("Mutation", "DoFeed3", <<VarDef("input", NonNull(Named("FeedInput")))>>,
                                               <<LinkedA("feedPet", "", << <<"input", Var("input")>> >>, <<>>)>>),
                                     Entrypoint("Mutation", "DoFeed3") >> ELSE <<>>)
               \o (IF mv = 1 THEN << Component("Mutation", "DoFeed", <<VarDef("input", NonNull(Named("FeedInput")))>>,
                                               <<LinkedA("feedPet", "", << <<"input", Var("input")>> >>,
                                                         <<Scalar("ok"), Linked("pet", <<Scalar("nickname"), Linked("owner", <<Scalar("name")>>)>>)>>)>>),
                                     Entrypoint("Mutation", "DoFeed") >> ELSE <<>>))
    : mv \in Mutations, ct \in Bounded(SeqOfSet(CardChoice), MaxCard), ht \in Bounded(SeqOfSet(HomeChoice), MaxUses), dv \in Defaults }

VARIABLE prog
Init == prog \in Programs
Next == UNCHANGED prog
Spec == Init /\ [][Next]_prog
Emit == PrintT(<<"PROGRAM", ToJson(prog)>>)
=============================================================================
