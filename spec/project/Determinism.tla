---------------------------- MODULE Determinism ----------------------------
(* C14 - compilation output is deterministic.

   The statement: compiling the same files with the same configuration produces byte-identical
   artifacts and identical diagnostics, independent of (1) process hash seeds, (2) directory
   enumeration order and (3) the order in which files and literals are discovered.

   This module makes the three "independent of ..." clauses explicit as an ENVIRONMENT that is
   chosen nondeterministically and that the compiler cannot be told about:

     env = [ rep   : 1..Reps        which fresh OS process performs the compile.  Every process draws
                                    new keys for std::collections::RandomState, so `rep` stands for the
                                    hash seed (1).
             order : permutation    the order in which the source files (and, through them, the
                                    directories) of the project are CREATED.  On a file system whose
                                    readdir order follows creation (tmpfs: newest first) this is the
                                    directory enumeration order (2); the order really seen by the
                                    compiler is recorded with every run (field `enum`).
             shuf  : 0..MaxShuf     the same for projects with too many files to permute
                                    exhaustively (checked-in demos): index of a seeded shuffle, 0 = sorted.
             lit   : LitOrders      order of the iso literals inside each source file (3).
             ep    : EpPlaces       the file that holds the entrypoint literals: next to their field,
                                    one new file per entrypoint, or one new file in a new directory
                                    ("files renamed / split so that discovery order changes while
                                    content is preserved") (3). ]

   The environment is changed by the actions NewProcess, PermuteDir, ReverseDir, Shuffle,
   PermuteLiterals and MoveEntrypoints (GenC14.tla turns them into a transition system whose
   states are (project, env) pairs; TLC enumerates it and every state is executed by the real
   compiler in a fresh process).

   LAYER A.  Compile(project, env) is what the real compiler did.  The property is that Compile
   does not depend on env:

       SameOutput(Compile(p, e1), Compile(p, e2))        for all environments e1, e2 of p

   where outputs are compared as   outcome, artifact map path -> bytes (by digest), and diagnostics
   as printed, IN ORDER.  Restrictions of the generated subset, stated here because they are part
   of the predicate:
     * `lit` and `ep` rewrite source files.  Artifacts embed the path of the file and the name of
       the exported const of a client field / pointer, never a position inside the file, and
       nothing of an entrypoint literal but its text; so a change of lit / ep preserves the content
       the artifacts are made of, and artifacts are compared ACROSS all environments.  Printed
       diagnostics contain file:line:column and an excerpt, which legitimately change when
       literals move; diagnostics are therefore compared only between runs with the same lit and
       ep (= the very same files).  The outcome (accepted / rejected) is compared across all.
     * digests stand for bytes (sha-256 computed by the driver: trusted base).                     *)
EXTENDS Naturals, Sequences, FiniteSets, TLC

LitOrders == {"id", "rev", "rot"}
EpPlaces  == {"home", "own", "deep"}

IdPerm(n) == [i \in 1..n |-> i]
RevPerm(n) == [i \in 1..n |-> n + 1 - i]
SwapAdj(p, i) == [p EXCEPT ![i] = p[i + 1], ![i + 1] = p[i]]
Inversions(p) == Cardinality({ij \in (DOMAIN p) \X (DOMAIN p) : ij[1] < ij[2] /\ p[ij[1]] > p[ij[2]]})

BaseEnv(n) == [rep |-> 1, order |-> IdPerm(n), shuf |-> 0, lit |-> "id", ep |-> "home"]

\* number of environment dimensions (other than the process) that differ from the base environment
Deviations(e) == (IF e.order # IdPerm(Len(e.order)) THEN 1 ELSE 0) + (IF e.shuf # 0 THEN 1 ELSE 0)
                 + (IF e.lit # "id" THEN 1 ELSE 0) + (IF e.ep # "home" THEN 1 ELSE 0)

\* ---- environment actions, as relations between environments -------------------------------
NewProcessRel(e, f, reps)   == e.rep < reps /\ f = [e EXCEPT !.rep = e.rep + 1]
PermuteDirRel(e, f, budget) == \E i \in 1..(Len(e.order) - 1) :
                                  /\ f = [e EXCEPT !.order = SwapAdj(e.order, i), !.rep = 1]
                                  /\ Inversions(f.order) <= budget
ReverseDirRel(e, f)         == Len(e.order) >= 2 /\ e.order = IdPerm(Len(e.order))
                               /\ f = [e EXCEPT !.order = RevPerm(Len(e.order)), !.rep = 1]
ShuffleRel(e, f, max)       == e.shuf < max /\ f = [e EXCEPT !.shuf = e.shuf + 1, !.rep = 1]
PermuteLiteralsRel(e, f)    == \E x \in LitOrders \ {e.lit} : f = [e EXCEPT !.lit = x, !.rep = 1]
MoveEntrypointsRel(e, f)    == \E x \in EpPlaces \ {e.ep} : f = [e EXCEPT !.ep = x, !.rep = 1]

\* ---- outputs and the property (layer A) ---------------------------------------------------
\* an output:  [outcome |-> "ok" | "diagnostics" | "panic" | "abort",
\*              arts |-> << [path, digest], ... >>, diags |-> << printed diagnostic, ... >>]
Range(s) == {s[i] : i \in DOMAIN s}
Bag(s) == [x \in Range(s) |-> Cardinality({i \in DOMAIN s : s[i] = x})]
ArtPaths(o) == {o.arts[i].path : i \in DOMAIN o.arts}
DigestOf(o, p) == o.arts[CHOOSE i \in DOMAIN o.arts : o.arts[i].path = p].digest
ArtMap(o) == [p \in ArtPaths(o) |-> DigestOf(o, p)]

SameFiles(e1, e2) == e1.lit = e2.lit /\ e1.ep = e2.ep

SameOutput(a, b) ==
  /\ a.outcome = b.outcome
  /\ (a.arts = b.arts \/ ArtMap(a) = ArtMap(b))      \* the first disjunct is only a shortcut
  /\ SameFiles(a.env, b.env) => a.diags = b.diags

\* which clause of SameOutput fails ("" when it holds); `what` names the first differing artifact
Difference(a, b) ==
  IF a.outcome # b.outcome THEN [aspect |-> "outcome", what |-> a.outcome \o "/" \o b.outcome]
  ELSE IF a.arts # b.arts /\ ArtPaths(a) # ArtPaths(b)
       THEN [aspect |-> "artifact-set",
             what |-> CHOOSE p \in (ArtPaths(a) \ ArtPaths(b)) \cup (ArtPaths(b) \ ArtPaths(a)) : TRUE]
  ELSE IF a.arts # b.arts /\ ArtMap(a) # ArtMap(b)
       THEN [aspect |-> "artifact-bytes", what |-> CHOOSE p \in ArtPaths(a) : DigestOf(a, p) # DigestOf(b, p)]
  ELSE IF SameFiles(a.env, b.env) /\ a.diags # b.diags
       THEN IF Bag(a.diags) = Bag(b.diags) THEN [aspect |-> "diagnostic-order", what |-> ""]
            ELSE [aspect |-> "diagnostics", what |-> ""]
  ELSE [aspect |-> "", what |-> ""]
=============================================================================
