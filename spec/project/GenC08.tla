------------------------------- MODULE GenC08 -------------------------------
(* C08 generator: feature configurations of the program space.  The STATES are programs: one state
   per point of the feature space of the chosen configuration (CONSTANT Config); every state is
   printed as <<"PROGRAM", [cfg, feat, prog]>> (or <<"SOUP", ..>> for raw token soups, which python
   only concatenates).  Nothing here predicts the outcome: C08's predicate (ObsC08.tla) accepts
   both "ok" and ">= 1 diagnostic" and rejects only panic / abort / stack overflow.

     "args"        13 argument positions (Int, String, ID!, Float, Boolean, enum, input-object fields,
                   client-field parameter, list, variable default, directive argument) x ~45 value
                   classes (integers around and beyond i32 / i64, negative, leading zero, float- / enum- /
                   list-like raw text, strings with apostrophe / backslash / non-ASCII / non-BMP / comment
                   terminator / template syntax / line terminators, booleans, null, variables, objects)
     "abstract"    selections under interface / union / concrete object fields: asType refinements
                   (applicable, inapplicable, nested, empty, without selection set), id, __typename, client
                   fields, @loadable and pointers below a refinement -- every subset of <= 2 menu items
     "directives"  12 kinds of selection x 9 directive lists (@loadable / @updatable / both / twice /
                   with arguments / unknown) x 3 kinds of enclosing declaration; includes the exposeField
                   generated fields feed / refetchPet and __refetch / __link
     "cycles"      client fields A, B (User) and C (Pet) whose selections are given by an adjacency
                   relation (plain or @loadable edges, self loops, through linked fields), reachable from an
                   entrypoint or not
     "decls"       odd declarations: entrypoints on non-root / undefined types and of undefined fields /
                   pointers, undefined / enum / input / union / interface parents, duplicate declarations,
                   names that shadow server fields, pointers to odd targets, empty selection sets, odd
                   variable declarations -- every subset of <= 2 menu items on top of a valid program
     "soup"        raw token soups (sequences of <= SoupLen tokens) in 7 syntactic contexts            *)
EXTENDS IsoProgram

CONSTANTS Config,       \* which feature configuration
          MaxChoice,    \* "abstract" / "decls": subsets of at most this many menu items (1 or 2)
          SoupLen,      \* "soup": maximal number of tokens (in the contexts SoupLong; one token in the others)
          SoupLong,
          CycleNodes,   \* "cycles": 2 or 3 client fields
          CycleModes,   \* "cycles": edge modes, 0 .. 2 (absent / plain / @loadable) or 0 .. 1
          CyclePtr      \* "cycles": TRUE makes node 2 a client POINTER (User.B to Pet) instead of a client field -- added after
                        \* seeded/C08-cycle-check-ignores-client-pointer-edges (a cycle that runs through a pointer's own selection set)

A(n, v) == <<n, v>>
Nick == <<Scalar("nickname")>>
Name == <<Scalar("name")>>
Id == <<Scalar("id")>>
TInt == Named("Int")
Raw(txt) == [t |-> "raw", text |-> txt]
WithDirA(sel, d, args) == [sel EXCEPT !.dirs = Append(@, [name |-> d, args |-> args])]

Tag == Field("Pet", "Tag", <<VarDef("unit", Named("String")), VarDef("n", NonNull(TInt))>>,
             << Scalar("nickname"), ScalarA("weight", "", <<A("unit", Var("unit"))>>),
                Linked("owner", <<LinkedA("pets", "", <<A("first", Var("n"))>>, Id)>>) >>)
Card == Component("User", "Card", <<>>, << Scalar("name"), Linked("bestPet", Nick) >>)
Fav == Pointer("User", "fav", "Pet", <<Linked("bestPet", <<Scalar("__link")>>)>>)
Home(vars, sels) == Component("Query", "Home", vars, sels)
EHome == Entrypoint("Query", "Home")

\* ---- "args" ------------------------------------------------------------------------------------
Values == <<
  IntV("0"), IntV("7"), IntV("-1"), IntV("-0"), IntV("007"), IntV("2147483647"), IntV("2147483648"), IntV("-2147483649"),
  IntV("9223372036854775807"), IntV("9223372036854775808"), IntV("-9223372036854775808"), IntV("-9223372036854775809"),
  IntV("99999999999999999999"), IntV("-99999999999999999999"),
  Raw("1.5"), Raw("1e3"), Raw("CAT"), Raw("[1]"), Raw("[]"), Raw("$"), Raw("-"), Raw("+1"), Raw("0x10"),
  StrV(<<112, 108, 97, 105, 110>>), StrV(<<>>), StrV(<<105, 116, 39, 115>>), StrV(<<97, 92, 98>>), StrV(<<97, 92, 110>>), StrV(<<92>>),
  StrV(<<233>>), StrV(<<20013, 25991>>), StrV(<<128512>>), StrV(<<42, 47>>), StrV(<<60, 47, 115, 99, 114, 105, 112, 116, 62>>),
  StrV(<<36, 123, 120, 125>>), StrV(<<96>>), StrV(<<97, 10, 98>>), StrV(<<97, 13, 10, 98>>), StrV(<<9>>), StrV(<<8232>>), StrV(<<35>>),
  BoolV(TRUE), BoolV(FALSE), NullV, Var("v"), Var("undeclared"),
  ObjV(<<>>), ObjV(<<A("a", IntV("1"))>>), ObjV(<<A("nested", ObjV(<<A("nested", ObjV(<<A("name", NullV)>>))>>))>>),
  ObjV(<<A("minWeight", IntV("99999999999999999999"))>>)
>>

ArgPositions == 1 .. 13
ArgProgram(pos, v) ==
  LET usesV == v.t = "var" /\ v.n = "v"
      hv == IF usesV THEN <<VarDef("v", TInt)>> ELSE <<>>
      P(hsels) == Program(<<Tag, Home(hv, hsels), EHome>>)
  IN CASE pos = 1 -> P(<<LinkedA("pets", "", <<A("first", v)>>, Nick)>>)
       [] pos = 2 -> P(<<LinkedA("pets", "", <<A("after", v)>>, Nick)>>)
       [] pos = 3 -> P(<<LinkedA("user", "", <<A("id", v)>>, Name)>>)
       [] pos = 4 -> P(<<Linked("me", <<ScalarA("score", "", <<A("scale", v)>>)>>)>>)
       [] pos = 5 -> P(<<Linked("me", <<ScalarA("score", "", <<A("round", v)>>)>>)>>)
       [] pos = 6 -> P(<<Linked("me", <<LinkedA("pets", "", <<A("kind", v)>>, Id)>>)>>)
       [] pos = 7 -> P(<<LinkedA("pets", "", <<A("filter", ObjV(<<A("minWeight", v)>>))>>, Nick)>>)
       [] pos = 8 -> P(<<LinkedA("pets", "", <<A("filter", ObjV(<<A("nested", ObjV(<<A("name", v)>>))>>))>>, Nick)>>)
       [] pos = 9 -> P(<<Linked("topPet", <<ScalarA("Tag", "", <<A("n", v)>>)>>)>>)
       [] pos = 10 -> P(<<LinkedA("byIds", "", <<A("ids", v)>>, Nick)>>)
       [] pos = 11 -> Program(<<Home(<<VarDefD("d", TInt, v)>> \o hv, <<LinkedA("pets", "", <<A("first", Var("d"))>> \o (IF usesV THEN <<A("after", v)>> ELSE <<>>), Nick)>>), EHome>>)
       [] pos = 12 -> P(<<Linked("topPet", <<WithDirA(ScalarA("Tag", "", <<A("n", IntV("1"))>>), "loadable", <<A("lazyLoadArtifact", v)>>)>>)>>)
       [] pos = 13 -> P(<<LinkedA("pets", "x", <<A("first", v)>>, Nick), LinkedA("pets", "", <<A("first", v), A("after", v)>>, Nick)>>)

\* ---- "abstract" --------------------------------------------------------------------------------
Parents == << LinkedA("node", "", <<A("id", StrV(<<49>>))>>, <<>>), LinkedA("search", "", <<A("text", StrV(<<113>>))>>, <<>>),
              Linked("topPet", <<>>), Linked("me", <<>>) >>
Menu == << Linked("asPet", Nick), Linked("asUser", Name), Linked("asNode", Id), Scalar("id"), Scalar("__typename"),
           Linked("asPet", <<ScalarA("Tag", "", <<A("n", IntV("1"))>>)>>), Linked("asPet", <<WithDir(Scalar("Tag"), "loadable")>>),
           Linked("asUser", <<Linked("fav", Nick), Scalar("Card")>>), Linked("asPet", <<Linked("asPet", Nick)>>),
           Linked("asSearchResult", Id), Linked("asPet", <<>>), Scalar("asPet"), Linked("asPetKind", Id), Linked("asQuery", <<Linked("me", Name)>>),
           LinkedA("asPet", "x", <<>>, <<Linked("owner", <<Linked("asUser", Name)>>)>>), WithDir(Linked("asPet", Nick), "loadable") >>
MenuChoices == {<<>>} \cup {<<i>> : i \in DOMAIN Menu}
               \cup (IF MaxChoice >= 2 THEN {<<x[1], x[2]>> : x \in {y \in (DOMAIN Menu) \X (DOMAIN Menu) : y[1] < y[2]}} ELSE {})
AbstractProgram(pi, ch) ==
  Program(<<Tag, Card, Fav, Home(<<>>, <<[Parents[pi] EXCEPT !.sels = [i \in DOMAIN ch |-> Menu[ch[i]]]]>>), EHome>>)

\* ---- "directives" ------------------------------------------------------------------------------
Targets == << Scalar("name"), Scalar("id"), Scalar("__typename"), Linked("bestPet", Nick), Scalar("Card"), Scalar("Plain"),
              Linked("fav", Nick), Linked("bestPet", <<Scalar("feed")>>), Linked("bestPet", <<Scalar("refetchPet")>>),
              Scalar("__refetch"), Linked("bestPet", <<Scalar("__link")>>), Linked("friends", Name) >>
InnerTarget == {8, 9, 11}          \* the directive goes on the selection inside bestPet
DirLists == << <<>>, <<"loadable">>, <<"updatable">>, <<"loadable", "updatable">>, <<"loadable", "loadable">>, <<"bogus">>,
               <<"loadable+lazy">>, <<"loadable+bogusarg">>, <<"updatable+arg">> >>
RECURSIVE ApplyDirs(_, _)
ApplyDirs(sel, ds) ==
  IF ds = <<>> THEN sel
  ELSE ApplyDirs(CASE Head(ds) = "loadable+lazy" -> WithDirA(sel, "loadable", <<A("lazyLoadArtifact", BoolV(TRUE))>>)
                   [] Head(ds) = "loadable+bogusarg" -> WithDirA(sel, "loadable", <<A("bogus", IntV("1"))>>)
                   [] Head(ds) = "updatable+arg" -> WithDirA(sel, "updatable", <<A("x", IntV("1"))>>)
                   [] OTHER -> WithDir(sel, Head(ds)), Tail(ds))
DirProgram(ti, di, ctx) ==
  LET t == Targets[ti]
      s == IF ti \in InnerTarget THEN [t EXCEPT !.sels = <<ApplyDirs(t.sels[1], DirLists[di])>>] ELSE ApplyDirs(t, DirLists[di])
      plain == Field("User", "Plain", <<>>, Name)
      host == CASE ctx = 1 -> Field("User", "Host", <<>>, <<s>>)
                [] ctx = 2 -> Component("User", "Host", <<>>, <<s>>)
                [] ctx = 3 -> Pointer("User", "Host", "Pet", <<Linked("bestPet", <<Scalar("__link")>>), s>>)
      use == IF ctx = 3 THEN Linked("Host", Nick) ELSE Scalar("Host")
  IN Program(<<Card, Fav, plain, host, Home(<<>>, <<Linked("me", <<use>>)>>), EHome>>)

\* ---- "cycles" ----------------------------------------------------------------------------------
\* node 1 = User.A, 2 = User.B, 3 = Pet.C; edge mode 0 absent, 1 plain, 2 @loadable
Nodes == 1 .. CycleNodes
NodeOn(i) == IF i = 3 THEN "Pet" ELSE "User"
NodeName(i) == IF i = 1 THEN "A" ELSE IF i = 2 THEN "B" ELSE "C"
IsPtr(i) == CyclePtr /\ i = 2
EdgeSel(i, j, mode) ==
  LET leaf == IF IsPtr(j) THEN Linked(NodeName(j), <<Scalar("id")>>)       \* a pointer is selected like a linked field
              ELSE IF mode = 2 THEN WithDir(Scalar(NodeName(j)), "loadable") ELSE Scalar(NodeName(j))
  IN IF NodeOn(i) = NodeOn(j) THEN leaf
     ELSE IF NodeOn(i) = "User" THEN LinkedA("bestPet", NodeName(j), <<>>, <<leaf>>)
     ELSE LinkedA("owner", NodeName(j), <<>>, <<leaf>>)
CycleProgram(adj, entry) ==
  LET body(i) == <<Scalar("id")>> \o [k \in 1 .. Cardinality({j \in Nodes : adj[i][j] # 0}) |->
                       LET j == CHOOSE j \in Nodes : adj[i][j] # 0 /\ Cardinality({x \in Nodes : x < j /\ adj[i][x] # 0}) = k - 1
                       IN EdgeSel(i, j, adj[i][j])]
      decls == [i \in Nodes |-> IF IsPtr(i) THEN Pointer(NodeOn(i), NodeName(i), "Pet", <<Linked("bestPet", <<Scalar("__link")>>)>> \o body(i))
                                 ELSE Field(NodeOn(i), NodeName(i), <<>>, body(i))]
  IN Program(decls \o (IF entry = 1 THEN <<Home(<<>>, <<Linked("me", <<Scalar("A")>>)>>), EHome>>
                       ELSE IF entry = 2 THEN <<Home(<<>>, <<Linked("me", <<WithDir(Scalar("A"), "loadable")>>)>>), EHome>>
                       ELSE <<>>))

\* ---- "decls" -----------------------------------------------------------------------------------
VarsField(name, vars) == Field("Query", name, vars, <<LinkedA("pets", "", <<A("first", Var("a"))>>, Nick)>>)
Odd == <<
  <<Entrypoint("User", "Card")>>, <<Entrypoint("Nope", "Home")>>, <<Entrypoint("Query", "Missing")>>, <<Entrypoint("User", "fav")>>,
  <<EHome>>, <<Entrypoint("Mutation", "Home")>>, <<Entrypoint("PetKind", "Home")>>, <<Entrypoint("Query", "me")>>,
  <<Field("Nope", "X", <<>>, Id)>>, <<Field("PetKind", "X", <<>>, Id)>>, <<Field("PetFilter", "X", <<>>, <<Scalar("name")>>)>>,
  <<Field("SearchResult", "X", <<>>, <<Linked("asUser", Name)>>)>>, <<Field("Node", "X", <<>>, Id)>>, <<Field("String", "X", <<>>, Id)>>,
  <<Card>>, <<Pointer("User", "Card", "Pet", <<Linked("bestPet", <<Scalar("__link")>>)>>)>>, <<Field("User", "name", <<>>, Id)>>,
  <<Field("User", "__typename", <<>>, Id)>>, <<Field("User", "id", <<>>, Name)>>, <<Field("User", "asUser", <<>>, Name)>>,
  <<Pointer("User", "p1", "Nope", <<Linked("bestPet", <<Scalar("__link")>>)>>)>>, <<Pointer("User", "p2", "String", <<Scalar("name")>>)>>,
  <<Pointer("User", "p3", "PetKind", <<Linked("bestPet", <<Scalar("__link")>>)>>)>>, <<Pointer("User", "p4", "SearchResult", <<Linked("bestPet", <<Scalar("__link")>>)>>)>>,
  <<Pointer("User", "p5", "[Pet!]!", <<Linked("pets", <<Scalar("__link")>>)>>)>>, <<Pointer("User", "p6", "Pet", Name)>>,
  <<Pointer("User", "p7", "Pet", <<>>)>>, <<Pointer("User", "p8", "User", <<Scalar("__link")>>)>>,
  <<Field("User", "Empty", <<>>, <<>>)>>, <<Component("User", "EmptyC", <<>>, <<>>), Field("Query", "UseEmpty", <<>>, <<Linked("me", <<Scalar("EmptyC")>>)>>), Entrypoint("Query", "UseEmpty")>>,
  <<Field("User", "NestedEmpty", <<>>, <<Linked("bestPet", <<>>)>>), Field("Query", "UseNE", <<>>, <<Linked("me", <<Scalar("NestedEmpty")>>)>>), Entrypoint("Query", "UseNE")>>,
  <<VarsField("V1", <<VarDef("a", Named("Nope"))>>)>>, <<VarsField("V2", <<VarDef("a", Named("User"))>>), Entrypoint("Query", "V2")>>,
  <<VarsField("V3", <<VarDef("a", TInt), VarDef("a", TInt)>>)>>, <<VarsField("V4", <<VarDefD("a", TInt, StrV(<<120>>))>>), Entrypoint("Query", "V4")>>,
  <<VarsField("V5", <<VarDefD("a", TInt, Var("a"))>>), Entrypoint("Query", "V5")>>, <<VarsField("V6", <<VarDefD("a", NonNull(TInt), NullV)>>), Entrypoint("Query", "V6")>>,
  <<Field("Query", "V7", <<VarDef("a", Named("PetFilter"))>>, <<LinkedA("pets", "", <<A("filter", Var("a"))>>, Nick)>>), Entrypoint("Query", "V7")>>,
  <<Field("Query", "V9", <<VarDef("a", NonNull(Named("FeedInput")))>>, <<LinkedA("pets", "", <<A("filter", ObjV(<<A("nested", ObjV(<<A("name", NullV)>>))>>))>>, Nick)>>)>>, <<VarsField("V8", <<VarDef("a", ListOf(ListOf(TInt)))>>), Entrypoint("Query", "V8")>>,
  <<Field("Mutation", "M", <<>>, <<LinkedA("setName", "", <<A("id", IntV("1")), A("name", StrV(<<110>>))>>, Name)>>), Entrypoint("Mutation", "M")>>,
  <<Field("Subscription", "S", <<>>, Id), Entrypoint("Subscription", "S")>>,
  <<Field("Pet", "feed", <<>>, Id)>>, <<Field("Pet", "refetchPet", <<>>, Id)>>, <<Field("Query", "Home", <<>>, <<Linked("me", Name)>>)>>,
  \* an entrypoint variable passed on inside an asX refinement (to a client field / a server field; interface / union), and the control without refinement
  <<Field("User", "CardV", <<VarDef("n", TInt)>>, <<LinkedA("pets", "", <<A("first", Var("n"))>>, Id)>>),
    Field("Query", "HomeV", <<VarDef("id", NonNull(Named("ID"))), VarDef("k", TInt)>>, <<LinkedA("node", "", <<A("id", Var("id"))>>, <<Linked("asUser", <<ScalarA("CardV", "", <<A("n", Var("k"))>>)>>)>>)>>),
    Entrypoint("Query", "HomeV")>>,
  <<Field("User", "CardV", <<VarDef("n", TInt)>>, <<LinkedA("pets", "", <<A("first", Var("n"))>>, Id)>>),
    Field("Query", "HomeV", <<VarDef("k", TInt)>>, <<LinkedA("search", "", <<A("text", StrV(<<113>>))>>, <<Linked("asUser", <<ScalarA("CardV", "", <<A("n", Var("k"))>>)>>)>>)>>),
    Entrypoint("Query", "HomeV")>>,
  <<Field("Query", "HomeV", <<VarDef("id", NonNull(Named("ID"))), VarDef("k", TInt)>>, <<LinkedA("node", "", <<A("id", Var("id"))>>, <<Linked("asUser", <<LinkedA("pets", "", <<A("first", Var("k"))>>, Id)>>)>>)>>),
    Entrypoint("Query", "HomeV")>>,
  <<Field("User", "CardV", <<VarDef("n", TInt)>>, <<LinkedA("pets", "", <<A("first", Var("n"))>>, Id)>>),
    Field("Query", "HomeV", <<VarDef("k", TInt)>>, <<Linked("me", <<ScalarA("CardV", "", <<A("n", Var("k"))>>)>>)>>),
    Entrypoint("Query", "HomeV")>>,
  <<Field("Pet", "UsesFeed", <<>>, <<Scalar("feed"), Scalar("refetchPet"), Scalar("__refetch")>>), Field("Query", "UF", <<>>, <<Linked("topPet", <<Scalar("UsesFeed")>>)>>), Entrypoint("Query", "UF")>>
>>
OddChoices == {<<>>} \cup {<<i>> : i \in DOMAIN Odd}
              \cup (IF MaxChoice >= 2 THEN {<<x[1], x[2]>> : x \in {y \in (DOMAIN Odd) \X (DOMAIN Odd) : y[1] < y[2]}} ELSE {})
RECURSIVE CatOdd(_)
CatOdd(ch) == IF ch = <<>> THEN <<>> ELSE Odd[Head(ch)] \o CatOdd(Tail(ch))
DeclsProgram(ch) == Program(<<Card, Fav, Home(<<>>, <<Linked("me", <<Scalar("Card"), Linked("fav", Nick)>>)>>), EHome>> \o CatOdd(ch))

\* ---- "soup" ------------------------------------------------------------------------------------
Tokens == << "field", "pointer", "entrypoint", "Query", "User", ".", "Home", "name", "me", "{", "}", "(", ")", "$", ":", "!",
             "[", "]", "@", "component", "loadable", "to", "=", ",", "NL", "1", "STR", "-", "null", "true", "\"", "#", "..." >>
Contexts == 1 .. 7
RECURSIVE Seqs(_)
Seqs(n) == IF n = 0 THEN {<<>>} ELSE LET s == Seqs(n - 1) IN s \cup {Append(x, t) : x \in {y \in s : Len(y) = n - 1}, t \in DOMAIN Tokens}

\* ---- the state space ---------------------------------------------------------------------------
VARIABLE feat
Init ==
  CASE Config = "args" -> feat \in {<<p, v>> : p \in ArgPositions, v \in DOMAIN Values}
    [] Config = "abstract" -> feat \in {<<pi, ch>> : pi \in DOMAIN Parents, ch \in MenuChoices}
    [] Config = "directives" -> feat \in {<<t, d, c>> : t \in DOMAIN Targets, d \in DOMAIN DirLists, c \in 1 .. 3}
    [] Config = "cycles" -> feat \in {<<adj, e>> : adj \in [Nodes -> [Nodes -> CycleModes]], e \in 0 .. 2}
    [] Config = "decls" -> feat \in {<<ch>> : ch \in OddChoices}
    [] Config = "soup" -> feat \in {<<c, s>> : c \in Contexts, s \in Seqs(1)} \cup {<<c, s>> : c \in SoupLong, s \in Seqs(SoupLen)}
Next == UNCHANGED feat
Spec == Init /\ [][Next]_feat

Prog ==
  CASE Config = "args" -> ArgProgram(feat[1], Values[feat[2]])
    [] Config = "abstract" -> AbstractProgram(feat[1], feat[2])
    [] Config = "directives" -> DirProgram(feat[1], feat[2], feat[3])
    [] Config = "cycles" -> CycleProgram(feat[1], feat[2])
    [] Config = "decls" -> DeclsProgram(feat[1])

Emit == IF Config = "soup"
          THEN PrintT(<<"SOUP", ToJson([cfg |-> Config, ctx |-> feat[1], toks |-> [i \in DOMAIN feat[2] |-> Tokens[feat[2][i]]]])>>)
          ELSE PrintT(<<"PROGRAM", ToJson([cfg |-> Config, feat |-> feat, prog |-> Prog])>>)
=============================================================================
