------------------------------- MODULE Types -------------------------------
(* C27 — generated TypeScript types describe the data actually provided.

   Predicates over the `types` projection of param_type.ts / raw_response_type.ts (h_compile js.rs:
   TS type aliases as JSON trees  [k |-> "obj", props |-> <<[name, optional, readonly, type]>>] | [k |-> "union", of]
   | [k |-> "ref", n, args] | [k |-> "array", of] | [k |-> "readonly", of] | [k |-> "kw", n] | [k |-> "lit", v] ...),
   the abstract program, the schema (schema_c27.json: schema1 + nested-list fields) and the parsed operation.

   Parameter type of a client field / pointer (T__N__param):
     * `data` is an object type with EXACTLY one property per selection, named by alias-or-name;
     * server field: nullable (union with null / undefined, or optional property) <=> the schema type is nullable,
       array (ReadonlyArray<..> / T[]) <=> the schema type is a list — at EVERY wrapper level; the innermost type
       of a linked field is again an object type for its sub-selections (recursively);
     * client field: typed by that client field's output type (T__N__output_type; LoadableField<T__N__param, ..> when
       selected @loadable); client pointer: LoadableField<T__N__param, {sub-selections}>.
   Raw response type of an entrypoint: exactly the response keys (alias, else name) of its operation at every level,
   the same nesting, and as many array levels as the schema type of the field has list levels; at a selection set with
   inline fragments: one object type per fragment type with the keys of the fragment plus the keys outside fragments. *)
EXTENDS Naturals, Sequences, FiniteSets, TLC, Json

SchemaC27 == JsonDeserialize("schema_c27.json")
Schema1 == JsonDeserialize("schema1.json")
TypesOf(name) == IF name = "schema_c27" THEN SchemaC27.types ELSE Schema1.types

Has(r, f) == f \in DOMAIN r
Range(s) == {s[i] : i \in DOMAIN s}

\* ---- schema types ------------------------------------------------------------------------------
RECURSIVE BaseOf(_)
BaseOf(t) == IF t.k = "named" THEN t.n ELSE BaseOf(t.of)
HasFieldsT(T, n) == n \in DOMAIN T /\ T[n].kind \in {"object", "interface"}
IsField(T, ty, f) == HasFieldsT(T, ty) /\ f \in DOMAIN T[ty].fields
FieldType(T, ty, f) == T[ty].fields[f].type
RECURSIVE ListDepth(_)
ListDepth(t) == IF t.k = "named" THEN 0 ELSE IF t.k = "list" THEN 1 + ListDepth(t.of) ELSE ListDepth(t.of)
RefineNames(T) == {"as" \o t : t \in DOMAIN T}
RefineTarget(T, name) == CHOOSE t \in DOMAIN T : name = "as" \o t

\* ---- TypeScript types ---------------------------------------------------------------------------
IsNullKw(t) == t.k = "kw" /\ t.n \in {"null", "undefined", "void"}
TsNullable(t) == t.k = "union" /\ \E i \in DOMAIN t.of : IsNullKw(t.of[i])
StripNull(t) ==
  IF t.k # "union" THEN t
  ELSE LET rest == SelectSeq(t.of, LAMBDA x : ~IsNullKw(x))
       IN IF Len(rest) = 1 THEN rest[1] ELSE [k |-> "union", of |-> rest]
IsArr(t) == \/ (t.k = "ref" /\ t.n \in {"ReadonlyArray", "Array"} /\ Len(t.args) = 1)
            \/ t.k = "array"
            \/ (t.k = "readonly" /\ t.of.k = "array")
Elem(t) == IF t.k = "ref" THEN t.args[1] ELSE IF t.k = "array" THEN t.of ELSE t.of.of

\* nullable <=> schema-nullable and array <=> schema-list through every wrapper level
RECURSIVE WrapOk(_, _, _), WrapOk1(_, _)
WrapOk(ts, optional, st) ==
  IF st.k = "nonnull" THEN ~optional /\ ~TsNullable(ts) /\ WrapOk1(ts, st.of)
  ELSE (optional \/ TsNullable(ts)) /\ WrapOk1(StripNull(ts), st)
WrapOk1(ts, st) == IF st.k = "list" THEN IsArr(ts) /\ WrapOk(Elem(ts), FALSE, st.of) ELSE ~IsArr(ts)

\* the type under all null / array wrappers
RECURSIVE Innermost(_)
Innermost(ts) == LET s == StripNull(ts) IN IF IsArr(s) THEN Innermost(Elem(s)) ELSE s
RECURSIVE ArrDepth(_)
ArrDepth(ts) == LET s == StripNull(ts) IN IF IsArr(s) THEN 1 + ArrDepth(Elem(s)) ELSE 0

PropNames(obj) == {obj.props[i].name : i \in DOMAIN obj.props}
PropNamed(obj, n) == obj.props[CHOOSE i \in DOMAIN obj.props : obj.props[i].name = n]
DupProps(obj) == {n \in PropNames(obj) : Cardinality({i \in DOMAIN obj.props : obj.props[i].name = n}) > 1}

\* ---- parameter types --------------------------------------------------------------------------------
SelName(s) == IF s.alias = "" THEN s.name ELSE s.alias
IsLinkedSel(s) == "sels" \in DOMAIN s
IsLoadableSel(s) == \E i \in DOMAIN s.dirs : s.dirs[i].name = "loadable"
Decls(prog, k, on, name) == {d \in Range(prog.decls) : d.k = k /\ d.on = on /\ d.name = name}
P(path, msg) == <<path, msg>>

RECURSIVE DataProblems(_, _, _, _, _, _)
SelProblems(p, s, ty, prog, T, path) ==
  LET here == Append(path, SelName(s))
  IN IF IsLinkedSel(s) THEN
       (IF Decls(prog, "pointer", ty, s.name) # {} THEN
          LET d == CHOOSE d \in Decls(prog, "pointer", ty, s.name) : TRUE
              inner == Innermost(p.type)
          IN IF ~(inner.k = "ref" /\ inner.n = "LoadableField" /\ Len(inner.args) >= 2)
               THEN {P(here, "client pointer is not typed LoadableField<param, data>")}
             ELSE (IF inner.args[1] # [k |-> "ref", n |-> ty \o "__" \o s.name \o "__param", args |-> <<>>]
                     THEN {P(here, "client pointer's LoadableField does not name the pointer's param type")} ELSE {})
                  \cup DataProblems(inner.args[2], s.sels, d.to, prog, T, here)
        ELSE IF s.name \in RefineNames(T) /\ ~IsField(T, ty, s.name)
          THEN DataProblems(Innermost(p.type), s.sels, RefineTarget(T, s.name), prog, T, here)
        ELSE IF ~IsField(T, ty, s.name) THEN {}
        ELSE LET st == FieldType(T, ty, s.name)
             IN (IF ~WrapOk(p.type, p.optional, st) THEN {P(here, "nullability / list structure differs from the schema type")} ELSE {})
                \cup DataProblems(Innermost(p.type), s.sels, BaseOf(st), prog, T, here))
     ELSE
       (IF Decls(prog, "field", ty, s.name) # {} THEN
          LET want == ty \o "__" \o s.name \o "__output_type"
              t == p.type
          IN IF IsLoadableSel(s)
               THEN (IF ~(t.k = "ref" /\ t.n = "LoadableField" /\ Len(t.args) >= 2
                          /\ t.args[1] = [k |-> "ref", n |-> ty \o "__" \o s.name \o "__param", args |-> <<>>]
                          /\ t.args[2] = [k |-> "ref", n |-> want, args |-> <<>>])
                       THEN {P(here, "loadable client field is not typed LoadableField<param, output type>")} ELSE {})
               ELSE (IF t # [k |-> "ref", n |-> want, args |-> <<>>]
                       THEN {P(here, "client field is not typed by the client field's output type")} ELSE {})
        ELSE IF IsField(T, ty, s.name) /\ s.name # "__typename"
          THEN (IF ~WrapOk(p.type, p.optional, FieldType(T, ty, s.name))
                  THEN {P(here, "nullability / list structure differs from the schema type")} ELSE {})
                \cup (IF Innermost(p.type).k = "obj" THEN {P(here, "scalar field typed as an object")} ELSE {})
        ELSE {})      \* __typename, __link, __refetch, @exposeField fields: no schema type to compare with

DataProblems(obj, sels, ty, prog, T, path) ==
  IF obj.k # "obj" THEN {P(path, "selection set is not typed as an object type")}
  ELSE LET names == {SelName(sels[i]) : i \in DOMAIN sels}
       IN {P(Append(path, n), "selection has no property") : n \in names \ PropNames(obj)}
          \cup {P(Append(path, n), "property without a selection") : n \in PropNames(obj) \ names}
          \cup {P(Append(path, n), "property declared more than once") : n \in DupProps(obj)}
          \cup UNION {SelProblems(PropNamed(obj, SelName(sels[i])), sels[i], ty, prog, T, path)
                      : i \in {j \in DOMAIN sels : SelName(sels[j]) \in PropNames(obj)}}

\* param: [on, name, type (the T__N__param alias)]
ParamProblems(param, prog, T) ==
  LET ds == {d \in Range(prog.decls) : d.k \in {"field", "pointer"} /\ d.on = param.on /\ d.name = param.name}
  IN IF ds = {} THEN {}
     ELSE LET d == CHOOSE d \in ds : TRUE
              t == param.type
          IN IF t.k # "obj" \/ "data" \notin PropNames(t) THEN {P(<<>>, "param type has no data property")}
             ELSE DataProblems(PropNamed(t, "data").type, d.sels, d.on, prog, T, <<>>)

\* ---- raw response types -----------------------------------------------------------------------------
FieldSels(sels) == {i \in DOMAIN sels : sels[i].t = "field"}
FragSels(sels) == {i \in DOMAIN sels : sels[i].t = "inline"}
Members(ts) == LET s == StripNull(ts) IN IF s.k = "union" THEN Range(s.of) ELSE {s}

RECURSIVE RawObjProblems(_, _, _, _, _)
\* obj must describe the fields `fs` (a set of operation field selections) selected on schema type ty
RawFieldsProblems(obj, fs, ty, T, path) ==
  IF obj.k # "obj" THEN {P(path, "selection set is not typed as an object type")}
  ELSE LET keys == {f.key : f \in fs}
       IN {P(Append(path, k), "response key has no property") : k \in keys \ PropNames(obj)}
          \cup {P(Append(path, k), "property that is not a response key") : k \in PropNames(obj) \ keys}
          \cup {P(Append(path, k), "property declared more than once") : k \in DupProps(obj)}
          \cup UNION {LET p == PropNamed(obj, f.key)
                          here == Append(path, f.key)
                          known == IsField(T, ty, f.name)
                      IN (IF known /\ ArrDepth(p.type) # ListDepth(FieldType(T, ty, f.name))
                            THEN {P(here, "list structure differs from the operation's field type")} ELSE {})
                         \cup (IF f.selections # <<>>
                                 THEN RawObjProblems(p.type, f.selections, IF known THEN BaseOf(FieldType(T, ty, f.name)) ELSE "?", T, here)
                               ELSE IF Innermost(p.type).k = "obj" THEN {P(here, "leaf field typed as an object")} ELSE {})
                      : f \in {g \in fs : g.key \in PropNames(obj)}}

RawObjProblems(ts, sels, ty, T, path) ==
  LET rest == {sels[i] : i \in FieldSels(sels)}
      frags == {sels[i] : i \in FragSels(sels)}
      fragTypes == {f.on : f \in frags}
      members == Members(Innermost(ts))
      FieldsFor(t) == rest \cup UNION {{g.selections[i] : i \in FieldSels(g.selections)} : g \in {f \in frags : f.on = t}}
  IN IF frags = {} THEN
       (IF Cardinality(members) # 1 THEN {P(path, "selection set without fragments is not typed as one object type")}
        ELSE RawFieldsProblems(CHOOSE m \in members : TRUE, rest, ty, T, path))
     ELSE
       {P(Append(path, "... on " \o t), "no object type describes this fragment")
          : t \in {u \in fragTypes : \A m \in members : RawFieldsProblems(m, FieldsFor(u), u, T, path) # {}}}
       \cup {P(path, "an object type of the union describes no fragment")
               : m \in {n \in members : \A u \in fragTypes : RawFieldsProblems(n, FieldsFor(u), u, T, path) # {}}}

RootOf(op) == IF op.kind = "mutation" THEN "Mutation" ELSE IF op.kind = "subscription" THEN "Subscription" ELSE "Query"

\* raw: [key, type (the raw response alias), op]
RawProblems(raw, T) ==
  IF ~raw.op.ok THEN {P(<<>>, "operation text does not parse")}
  ELSE RawObjProblems(raw.type, raw.op.selections, RootOf(raw.op), T, <<>>)
=============================================================================
