------------------------------- MODULE ObsC09 -------------------------------
(* C09 (layer A): whenever compilation succeeds, every operation the generated artifacts will send
   (the default-export string of query_text.ts and of every __refetch__query_text__N.ts, evaluated as a
   JavaScript literal and parsed by the independent parser) is valid GraphQL for the project's schema:
   Operation!OpErrs(op) = {}.
   One record per successfully compiled project:  [id, ops : << [path, op] >>].  The schema is the file
   named by the environment variable SCHEMA (schema1.json for generated programs, a projection of the
   demo's SDL for the checked-in projects).                                                            *)
EXTENDS Operation

Rec == ndJsonDeserialize(IOEnv.TRACE)

VARIABLE l
Init == l = 1

BadOps(r) == { [path |-> r.ops[i].path, errs |-> OpErrs(r.ops[i].op)]
               : i \in {j \in DOMAIN r.ops : OpErrs(r.ops[j].op) # {}} }

Next == /\ l <= Len(Rec)
        /\ l' = l + 1
        /\ LET r == Rec[l]  b == BadOps(Rec[l])
           IN IF b = {} THEN TRUE ELSE PrintT(<<"BAD", ToJson([id |-> r.id, bad |-> b])>>)

Spec == Init /\ [][Next]_l

AllConsumed == TLCGet("stats").diameter = Len(Rec) + 1
=============================================================================
