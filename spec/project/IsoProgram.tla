----------------------------- MODULE IsoProgram -----------------------------
(* Abstract iso programs over a schema given as data (schema1.json), shared by the generator
   specifications (Gen*.tla: the STATES of those specs are programs) and by the observation
   predicates (Obs*.tla).  Concrete text is produced by engines/isorender.py (trusted renderer).

   Type references   [k |-> "named", n |-> T] | [k |-> "list", of |-> t] | [k |-> "nonnull", of |-> t]
   Values            [t |-> "var", n] | [t |-> "int", v |-> "3"] | [t |-> "str", cps |-> <<..>>] | [t |-> "bool", v]
                     | [t |-> "null"] | [t |-> "enum", v] | [t |-> "obj", fields |-> << <<k, v>>, .. >>]
   Selections        [name, alias, args, dirs] (+ sels for linked selections)
   Declarations      [k |-> "field" | "pointer" | "entrypoint", on, name, ...]                       *)
EXTENDS Naturals, Sequences, FiniteSets, TLC, Json

Schema == JsonDeserialize("schema1.json")
Types  == Schema.types
TypeNames == DOMAIN Types

Named(n)   == [k |-> "named", n |-> n]
ListOf(t)  == [k |-> "list", of |-> t]
NonNull(t) == [k |-> "nonnull", of |-> t]

RECURSIVE BaseName(_)
BaseName(t) == IF t.k = "named" THEN t.n ELSE BaseName(t.of)
IsNullable(t) == t.k # "nonnull"
RECURSIVE IsListType(_)
IsListType(t) == IF t.k = "list" THEN TRUE ELSE IF t.k = "nonnull" THEN IsListType(t.of) ELSE FALSE

IsScalarName(n) == n \in {"ID", "String", "Int", "Float", "Boolean"} \/ (n \in TypeNames /\ Types[n].kind \in {"enum", "scalar"})
HasFields(n) == n \in TypeNames /\ Types[n].kind \in {"object", "interface"}
FieldsOf(n) == IF HasFields(n) THEN DOMAIN Types[n].fields ELSE {}
FieldDef(n, f) == Types[n].fields[f]

\* ---- constructors ------------------------------------------------------------------------
Var(n)      == [t |-> "var", n |-> n]
IntV(s)     == [t |-> "int", v |-> s]            \* s is the decimal text, e.g. "3", "-1"
StrV(cps)   == [t |-> "str", cps |-> cps]        \* code points
BoolV(b)    == [t |-> "bool", v |-> b]
NullV       == [t |-> "null"]
EnumV(e)    == [t |-> "enum", v |-> e]
ObjV(fs)    == [t |-> "obj", fields |-> fs]

Scalar(name)                 == [name |-> name, alias |-> "", args |-> <<>>, dirs |-> <<>>]
ScalarA(name, alias, args)   == [name |-> name, alias |-> alias, args |-> args, dirs |-> <<>>]
Linked(name, sels)           == [name |-> name, alias |-> "", args |-> <<>>, dirs |-> <<>>, sels |-> sels]
LinkedA(name, alias, args, sels) == [name |-> name, alias |-> alias, args |-> args, dirs |-> <<>>, sels |-> sels]
WithDir(sel, d)              == [sel EXCEPT !.dirs = Append(@, [name |-> d, args |-> <<>>])]

Field(on, name, vars, sels)     == [k |-> "field", on |-> on, name |-> name, component |-> FALSE, vars |-> vars, sels |-> sels]
Component(on, name, vars, sels) == [k |-> "field", on |-> on, name |-> name, component |-> TRUE, vars |-> vars, sels |-> sels]
Pointer(on, name, to, sels)     == [k |-> "pointer", on |-> on, name |-> name, to |-> to, vars |-> <<>>, sels |-> sels]
Entrypoint(on, name)            == [k |-> "entrypoint", on |-> on, name |-> name]
VarDef(n, ty)                   == [name |-> n, type |-> ty]
VarDefD(n, ty, d)               == [name |-> n, type |-> ty, default |-> d]

Program(decls) == [decls |-> decls]

\* all sub-sequences of a sequence that keep order (for choosing subsets of optional selections)
RECURSIVE SubSeqs(_)
SubSeqs(s) == IF s = <<>> THEN {<<>>}
              ELSE LET rest == SubSeqs(Tail(s)) IN rest \cup {<<Head(s)>> \o r : r \in rest}

IsLinkedSel(s) == "sels" \in DOMAIN s
=============================================================================
