------------------------------ MODULE Artifacts ------------------------------
(* Observation predicates shared by ObsC11 / ObsC12: the operation tree (harness/h_compile/src/gql.rs)
   and the normalization AST (swc projection reshaped by engines/proj_pb_common.py: norm_node) brought to
   one canonical form, and SameTree / Diff between them.

     normalization AST nodes
       [kind |-> "Scalar", fieldName, arguments : << <<name, arg>> >>]
       [kind |-> "Linked", fieldName, arguments, concrete : [some, name], selections]
       [kind |-> "InlineFragment", type, selections]
     arg = [kind |-> "Variable", name] | [kind |-> "Literal", lit, text] | [kind |-> "String", cps]
         | [kind |-> "Enum", value] | [kind |-> "Object", value : << <<name, arg>> >>]
   Printing conventions (stated): `arguments: null` = no arguments; a numeric Literal corresponds to the
   GraphQL int/float literal with the same decimal text; selection order, isFallible and response aliases
   are not compared here (aliases are C12's subject).                                                 *)
EXTENDS Operation

RECURSIVE NormVal(_)
NormVal(a) ==
  CASE a.kind = "Variable" -> CV("var", a.name, <<>>, <<>>)
    [] a.kind = "Literal"  -> (CASE a.lit = "num"  -> CV("num", a.text, <<>>, <<>>)
                                 [] a.lit = "bool" -> CV("bool", a.text, <<>>, <<>>)
                                 [] a.lit = "null" -> CV("null", "", <<>>, <<>>)
                                 [] OTHER -> CV("unknown-literal", a.text, <<>>, <<>>))
    [] a.kind = "String"   -> CV("str", "", a.cps, <<>>)
    [] a.kind = "Enum"     -> CV("enum", a.value, <<>>, <<>>)
    [] a.kind = "Object"   -> CV("obj", "", <<>>, [i \in DOMAIN a.value |-> <<a.value[i][1], NormVal(a.value[i][2])>>])
    [] OTHER -> CV("unknown", a.kind, <<>>, <<>>)

\* `seq` keeps the argument order (exact match), `args` forgets it (GraphQL arguments are unordered)
HeadOf(k, name, seq) == [k |-> k, name |-> name, seq |-> seq, args |-> {seq[i] : i \in DOMAIN seq}]
OpHead(s) ==
  CASE s.t = "field"  -> HeadOf("field", s.name, [i \in DOMAIN s.args |-> <<s.args[i][1], OpVal(s.args[i][2])>>])
    [] s.t = "inline" -> HeadOf("inline", s.on, <<>>)
    [] OTHER          -> HeadOf("spread", s.name, <<>>)
NormHead(n) ==
  CASE n.kind \in {"Scalar", "Linked"} -> HeadOf("field", n.fieldName, [i \in DOMAIN n.arguments |-> <<n.arguments[i][1], NormVal(n.arguments[i][2])>>])
    [] n.kind = "InlineFragment"       -> HeadOf("inline", n.type, <<>>)
    [] OTHER                           -> HeadOf("unknown", n.kind, <<>>)
Loose(h) == [k |-> h.k, name |-> h.name, args |-> h.args, n |-> Len(h.seq)]

RECURSIVE Diff(_, _, _)
PairErrs(o, n, p) ==
  IF o.t = "inline" THEN Diff(o.selections, n.selections, IF o.on = "" THEN p ELSE o.on)
  ELSE IF o.t # "field" THEN {}
  ELSE LET opLinked == Len(o.selections) > 0  nLinked == n.kind = "Linked" IN
       IF opLinked # nLinked THEN {E("linked-field-on-one-side-scalar-on-the-other", o.name)}
       ELSE IF ~opLinked THEN {}
       ELSE IF ~FieldDefined(p, o.name) THEN {}        \* the parent type does not define the field: C09's finding, nothing to compare against
       ELSE LET base == TBase(FDef(p, o.name).type) IN
               (IF KindOf(base) = "object"
                THEN IF n.concrete.some /\ n.concrete.name = base THEN {} ELSE {E("concrete-type-missing-or-wrong-where-schema-type-is-an-object-type", o.name)}
                ELSE IF n.concrete.some THEN {E("concrete-type-given-where-schema-type-is-abstract", o.name)} ELSE {})
          \cup Diff(o.selections, n.selections, base)

Diff(os, ns, p) ==
  LET oh == [i \in DOMAIN os |-> OpHead(os[i])]
      nh == [i \in DOMAIN ns |-> NormHead(ns[i])]
      \* counterparts: the selections with exactly the same head if there are any, else those equal up to argument order
      PartnersO(j) == LET ex == {m \in DOMAIN ns : nh[m] = oh[j]} IN IF ex # {} THEN ex ELSE {m \in DOMAIN ns : Loose(nh[m]) = Loose(oh[j])}
      PartnersN(j) == LET ex == {m \in DOMAIN os : oh[m] = nh[j]} IN IF ex # {} THEN ex ELSE {m \in DOMAIN os : Loose(oh[m]) = Loose(nh[j])}
  IN   {E("operation-selection-without-counterpart-in-normalization-ast", oh[i].name) : i \in {j \in DOMAIN os : PartnersO(j) = {}}}
  \cup {E("normalization-ast-selection-without-counterpart-in-operation", nh[i].name) : i \in {j \in DOMAIN ns : PartnersN(j) = {}}}
  \cup {E("selection-occurs-a-different-number-of-times-in-operation-and-normalization-ast", oh[i].name)
        : i \in {j \in DOMAIN os : /\ \A m1 \in DOMAIN os : m1 < j => oh[m1] # oh[j]
                                  /\ \E m2 \in DOMAIN ns : nh[m2] = oh[j]
                                  /\ Cardinality({m3 \in DOMAIN os : oh[m3] = oh[j]}) # Cardinality({m4 \in DOMAIN ns : nh[m4] = oh[j]})}}
  \cup UNION {PairErrs(os[x[1]], ns[x[2]], p) : x \in {y \in (DOMAIN os) \X (DOMAIN ns) : y[2] \in PartnersO(y[1])}}

PairResult(pr) ==
  IF ~pr.norm.present THEN {E("normalization-ast-artifact-missing", pr.norm.path)}
  ELSE IF ~pr.norm.parses THEN {E("normalization-ast-artifact-is-not-typescript", pr.norm.path)}
  ELSE IF ~pr.norm.shape THEN {E("normalization-ast-artifact-has-no-selections", pr.norm.path)}
  ELSE Diff(pr.op.selections, pr.norm.selections, RootType(pr.op.kind))


SameTree(op, norm) == PairResult([op |-> op, norm |-> norm]) = {}

\* ---- names ---------------------------------------------------------------------------------------
IsNameStartCp(c) == c = 95 \/ (c >= 65 /\ c <= 90) \/ (c >= 97 /\ c <= 122)
IsNameCp(c) == IsNameStartCp(c) \/ (c >= 48 /\ c <= 57)
IsGraphQLName(cps) == Len(cps) >= 1 /\ IsNameStartCp(cps[1]) /\ \A i \in DOMAIN cps : IsNameCp(cps[i])
=============================================================================
