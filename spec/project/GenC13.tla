------------------------------- MODULE GenC13 -------------------------------
(* C13 generator.  A state is a point of the feature space

       shape  x  (slot, text class)  x  option combination

   printed as <<"PROGRAM", [shape, slot, cls, text, opts, prog]>>.
     shape   one of the accepted program shapes below (component + entrypoint; @loadable with lazily
             loaded artifact, pointer, refinements on interface and union; mutation + the exposeField
             generated fields; nested eager client fields with arguments)
     slot    where the text of the class is put: a schema description (field, linked field, object
             type; single-line or block string), a client field description (single-line or block),
             a string argument of a server field, a string argument passed to a client field, the
             default value of a variable, the generated_file_header option; slot 0 = nowhere
     cls     the text class: comment terminator / opener, apostrophe, quote, backslash (also as the last
             character), line terminators (LF, CR LF, U+2028), </script>, template syntax, non-BMP,
             line comment, HTML comment
     opts    module kind x include_file_extensions_in_import_statements x generated_file_header x
             persisted_documents (off / sha256 / md5 + extra info) x no_babel_transform

   Mode "options": every option combination x every shape, no special text.
   Mode "text":    every allowed (slot, class) x every shape x two option combinations (all default / all on).
   Mode "text2":   the same x two mixed option combinations (thorough tier).
   Mode "full":    everything x everything (not used by the registered tiers: 27 000 compiles).
   Allowed(slot, cls) keeps a class out of a slot whose syntax cannot express it (a raw iso string
   cannot contain a quote or a line break; the header option must be a single line). *)
EXTENDS IsoProgram

CONSTANT Mode

A(n, v) == <<n, v>>
Nick == <<Scalar("nickname")>>
Name == <<Scalar("name")>>
TInt == Named("Int")
TString == Named("String")
WithDirA(sel, d, args) == [sel EXCEPT !.dirs = Append(@, [name |-> d, args |-> args])]

Classes == <<
  [name |-> "plain",           cps |-> <<97, 98, 99>>],
  [name |-> "comment-close",   cps |-> <<97, 32, 42, 47, 32, 98>>],
  [name |-> "comment-open",    cps |-> <<47, 42, 32, 97>>],
  [name |-> "apostrophe",      cps |-> <<105, 116, 39, 115>>],
  [name |-> "quote",           cps |-> <<97, 32, 34, 98, 34>>],
  [name |-> "backslash",       cps |-> <<97, 92, 98>>],
  [name |-> "backslash-last",  cps |-> <<97, 92>>],
  [name |-> "line-feed",       cps |-> <<97, 10, 98>>],
  [name |-> "cr-lf",           cps |-> <<97, 13, 10, 98>>],
  [name |-> "u2028",           cps |-> <<97, 8232, 98>>],
  [name |-> "script-close",    cps |-> <<60, 47, 115, 99, 114, 105, 112, 116, 62>>],
  [name |-> "template",        cps |-> <<96, 36, 123, 120, 125, 96>>],
  [name |-> "non-bmp",         cps |-> <<128512>>],
  [name |-> "line-comment",    cps |-> <<47, 47, 32, 97>>],
  [name |-> "html-comment",    cps |-> <<60, 33, 45, 45, 32, 45, 45, 62>>]
>>
ClassByName(n) == CHOOSE i \in DOMAIN Classes : Classes[i].name = n

Slots == << "schema-field-line", "schema-field-block", "schema-linked-field-block", "schema-type-block",
            "client-field-line", "client-field-block", "server-string-arg", "client-field-string-arg",
            "variable-default", "header" >>
SlotIdx(n) == CHOOSE i \in DOMAIN Slots : Slots[i] = n
RawIsoString == {SlotIdx("client-field-line"), SlotIdx("server-string-arg"), SlotIdx("client-field-string-arg"), SlotIdx("variable-default")}
Allowed(slot, cls) ==
  /\ slot \in RawIsoString => Classes[cls].name \notin {"quote", "line-feed", "cr-lf"}
  /\ slot = SlotIdx("header") => Classes[cls].name \notin {"line-feed", "cr-lf"}

\* ---- option combinations ---------------------------------------------------------------------------
Opt(m, e, h, p, b) == [module |-> m, ext |-> e, header |-> h, persisted |-> p, no_babel |-> b]
AllOpts == {Opt(m, e, h, p, b) : m \in {"commonjs", "esmodule"}, e \in BOOLEAN, h \in BOOLEAN, p \in {"off", "sha256", "md5-extra"}, b \in BOOLEAN}
DefaultOpt == Opt("esmodule", FALSE, FALSE, "off", FALSE)
AllOnOpt == Opt("commonjs", TRUE, TRUE, "md5-extra", TRUE)

\* ---- program shapes (S(slotname) is the string value used at that slot) ------------------------------
Plain == StrV(<<113>>)
Shape(k, S(_)) ==
  LET tag == Field("Pet", "Tag", <<VarDef("unit", TString), VarDef("n", TInt)>>,
                   << Scalar("nickname"), ScalarA("weight", "", <<A("unit", Var("unit"))>>),
                      Linked("owner", <<LinkedA("pets", "", <<A("first", Var("n"))>>, <<Scalar("id")>>)>>) >>)
      card == Component("User", "Card", <<>>, << Scalar("name"), Linked("bestPet", Nick) >>)
      fav == Pointer("User", "fav", "Pet", <<Linked("bestPet", <<Scalar("__link")>>)>>)
      search == LinkedA("search", "", <<A("text", S("server-string-arg"))>>, <<Linked("asUser", Name), Linked("asPet", Nick)>>)
      tagsel == ScalarA("Tag", "", <<A("unit", S("client-field-string-arg")), A("n", IntV("1"))>>)
      uvar == <<VarDefD("u", TString, S("variable-default"))>>
      after == LinkedA("pets", "", <<A("after", Var("u"))>>, Nick)
  IN CASE k = 1 -> Program(<< tag, card,
                              Component("Query", "Home", uvar, << Linked("me", <<Scalar("name"), Scalar("Card")>>), Linked("topPet", <<Scalar("nickname"), tagsel>>), search, after >>),
                              Entrypoint("Query", "Home") >>)
       [] k = 2 -> Program(<< tag, card, fav,
                              Component("Query", "Home", uvar,
                                 << Linked("me", <<Scalar("Card"), Linked("fav", Nick), WithDir(Scalar("name"), "updatable")>>),
                                    Linked("topPet", <<Scalar("nickname"), WithDirA(tagsel, "loadable", <<A("lazyLoadArtifact", BoolV(TRUE))>>)>>),
                                    LinkedA("node", "", <<A("id", S("server-string-arg"))>>, <<Linked("asPet", <<Scalar("nickname"), WithDir(ScalarA("Tag", "", <<A("unit", S("client-field-string-arg"))>>), "loadable")>>), Linked("asUser", Name)>>),
                                    search, after >>),
                              Entrypoint("Query", "Home") >>)
       [] k = 3 -> Program(<< tag,
                              Field("Mutation", "Rename", <<VarDef("id", NonNull(Named("ID")))>> \o uvar,
                                 << LinkedA("setName", "", <<A("id", Var("id")), A("name", S("server-string-arg"))>>, <<Scalar("name"), Linked("bestPet", <<Scalar("nickname"), ScalarA("weight", "", <<A("unit", Var("u"))>>), Scalar("feed"), Scalar("refetchPet"), tagsel>>)>>),
                                    LinkedA("feedPet", "", <<A("input", ObjV(<<A("petId", Var("id")), A("mode", S("client-field-string-arg"))>>))>>, <<Scalar("ok")>>) >>),
                              Entrypoint("Mutation", "Rename"),
                              Component("Query", "Home", <<>>, << Linked("topPet", <<Scalar("nickname"), Scalar("feed"), Scalar("refetchPet"), Scalar("__refetch")>>) >>),
                              Entrypoint("Query", "Home") >>)
       [] k = 4 -> Program(<< tag,
                              Field("Pet", "Outer", <<VarDef("s", TString)>>, << Scalar("nickname"), ScalarA("Tag", "inner", <<A("unit", Var("s")), A("n", NullV)>>), tagsel >>),
                              Field("Query", "Home", uvar,
                                 << Linked("topPet", <<ScalarA("Outer", "", <<A("s", S("client-field-string-arg"))>>), ScalarA("Outer", "o2", <<A("s", Var("u"))>>)>>),
                                    LinkedA("top", "", <<A("n", IntV("2"))>>, Nick), search >>),
                              Entrypoint("Query", "Home") >>)
       \* 5, 6 (added after seeded/C13-lazyload-dynamic-import-without-extension, whose author also showed two defects
       \* of the unchanged tree that shapes 1-4 could not reach): entrypoint directives (@lazyLoad: the two dynamic
       \* import() loaders of entrypoint.ts), a client field with variables that NO entrypoint reaches (its param_type.ts
       \* still imports ./parameters_type), an entrypoint literal that spans lines (no_babel_transform: iso.ts `case '...'`)
       [] k = 5 -> Program(<< tag, card,
                              Field("User", "Unused", <<VarDef("n", TInt)>>, <<LinkedA("pets", "", <<A("first", Var("n"))>>, <<Scalar("id")>>)>>),
                              Component("Query", "Home", uvar, << Linked("me", <<Scalar("name"), Scalar("Card")>>), Linked("topPet", <<Scalar("nickname"), tagsel>>), search, after >>),
                              [k |-> "entrypoint", on |-> "Query", name |-> "Home", dirs |-> <<[name |-> "lazyLoad", args |-> <<>>]>>] >>)
       [] k = 6 -> Program(<< tag, card,
                              Component("Query", "Home", uvar, << Linked("me", <<Scalar("name"), Scalar("Card")>>), Linked("topPet", <<Scalar("nickname"), tagsel>>), search, after >>),
                              [k |-> "entrypoint", on |-> "Query", name |-> "Home", multiline |-> TRUE] >>)
Shapes == 1 .. 6

\* ---- state space -----------------------------------------------------------------------------------
VARIABLES shape, slot, cls, opts
vars == <<shape, slot, cls, opts>>

TextPoints == {<<s, c>> : s \in DOMAIN Slots, c \in DOMAIN Classes}
AllowedPoints == {x \in TextPoints : Allowed(x[1], x[2])}

Init ==
  /\ shape \in Shapes
  /\ CASE Mode = "options" -> slot = 0 /\ cls = 1 /\ opts \in AllOpts
       [] Mode = "text" -> (\E x \in AllowedPoints : slot = x[1] /\ cls = x[2]) /\ opts \in {DefaultOpt, AllOnOpt}
       [] Mode = "text2" -> (\E x \in AllowedPoints : slot = x[1] /\ cls = x[2])
                            /\ opts \in {Opt("esmodule", TRUE, FALSE, "sha256", FALSE), Opt("commonjs", FALSE, TRUE, "off", TRUE)}
       [] Mode = "full" -> (\E x \in AllowedPoints \cup {<<0, 1>>} : slot = x[1] /\ cls = x[2]) /\ opts \in AllOpts
Next == UNCHANGED vars
Spec == Init /\ [][Next]_vars

StringAt(n) == IF slot # 0 /\ Slots[slot] = n THEN StrV(Classes[cls].cps) ELSE Plain
Prog == Shape(shape, StringAt)

Emit == PrintT(<<"PROGRAM", ToJson([shape |-> shape, slot |-> IF slot = 0 THEN "none" ELSE Slots[slot], cls |-> Classes[cls].name,
                                    text |-> Classes[cls].cps, opts |-> opts, prog |-> Prog])>>)
=============================================================================
