------------------------------- MODULE ObsC26 -------------------------------
(* C26, impl -> spec: one record per case (a program compiled with persisted documents off and on);
   the layer-A predicate Holds of Persisted.tla is evaluated on every case in which both builds
   were accepted.
   record: [id, outcome_off, outcome_on, cfg |-> [algorithm, extra, file], off, on, file]          *)
EXTENDS Persisted, TLC, Json, IOUtils

Rec == ndJsonDeserialize(IOEnv.TRACE)

VARIABLE l
Init == l = 1

Culprit(c) ==   \* a path or id that shows the failing clause (for the report only)
  LET w == Why(c) IN
  IF w = "sends-no-id" THEN (CHOOSE i \in DOMAIN c.on : ~(c.on[i].kind = "PersistedOperation" /\ c.on[i].id # "")) 
  ELSE IF w = "sends-unrecorded-id" THEN (CHOOSE i \in DOMAIN c.on : c.on[i].id \notin Keys(c))
  ELSE IF w = "document-differs"
       THEN (CHOOSE i \in DOMAIN c.on : c.on[i].path \in Paths(c.off)
                                        /\ Entry(c, c.on[i].id).tokens # OffOf(c, c.on[i].path).tokens)
  ELSE 0

Next == /\ l <= Len(Rec)
        /\ l' = l + 1
        /\ LET r == Rec[l] IN
           IF r.outcome_off # "ok" \/ r.outcome_on # "ok" \/ Holds(r) THEN TRUE
           ELSE PrintT(<<"BAD", ToJson([id |-> r.id, why |-> Why(r),
                                        at |-> IF Culprit(r) = 0 THEN "" ELSE r.on[Culprit(r)].path])>>)

Spec == Init /\ [][Next]_l

AllConsumed == TLCGet("stats").diameter = Len(Rec) + 1
=============================================================================
