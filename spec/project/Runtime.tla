------------------------------- MODULE Runtime -------------------------------
(* C10 — readers only read data that the entrypoint fetches and normalizes.

   A transcription of the TypeScript runtime (libs/isograph-react/src/core) at the level the property needs,
   as RECURSIVE operators over the JSON projections of the artifacts the real compiler wrote
   (normalization_ast.ts, resolver_reader.ts, entrypoint.ts; one self-contained bundle per entrypoint, see
   engines/proj_pc_common.py):

     cache.ts   normalizeData / normalizeDataIntoRecord / normalizeScalarField / normalizeLinkedField /
                normalizeInlineFragment / normalizeNetworkResponseObject      ->  Normalize, NormSels, NormNode, NormObject
                getParentRecordKey / getStoreKeyChunkForArgument(Value)       ->  ParentKey, KeyChunkVal, Chunk
                getNetworkResponseKey / getArgumentValueChunk                 ->  NetKey, ArgChunkStr
                getDataIdOfNetworkResponse (id, __ROOT for Query, parent-path keys; concreteType ?? __typename) -> DataId
     read.ts    readData / readScalarFieldData / readLinkedFieldData (+ condition) / readResolverFieldData /
                generateChildVariableMap / readClientPointerData / readImperativelyLoadedField /
                readLoadablySelectedFieldData                                 ->  ReadData, ReadNode, GenChild, ...
   The digests of these function bodies are pinned in runtime_pin.json; a change is reported as drift.

   JavaScript values (variables, key chunks):  [t |-> "s" | "n", v |-> text] | [t |-> "b", v |-> BOOLEAN] | [t |-> "null"]
                                               | [t |-> "o", m |-> [key -> value]];  undefined = not in the map.
   Network response values:  [t |-> "null"] | [t |-> "val"] | [t |-> "id", v] | [t |-> "tn", v] | [t |-> "list", items]
                             | [t |-> "obj", f |-> [response key -> value]]
   Store: [record key <<typename, id>> -> [parent record key -> value]] with links [t |-> "link", tn, id] and
   [t |-> "links", items].

   Layer A (ObsC10.tla): for every conforming response (Responses: enumerated from the operation tree and the
   schema) and every valuation of the entrypoint's variables, ReadData of the entrypoint's reader — which descends
   into every nested reader through Resolver nodes, refinement and client pointer conditions, and stops at
   imperatively loaded / loadable / client pointer boundaries after reading what the boundary itself reads —
   is never MissingData and normalization never throws.                                                   *)
EXTENDS IsoProgram, Integers

Has(r, f) == f \in DOMAIN r
ArgsOf(n) == IF Has(n, "arguments") THEN n.arguments ELSE <<>>
Range(s) == {s[i] : i \in DOMAIN s}
MaxOf(S) == CHOOSE x \in S : \A y \in S : y <= x
LastNamed(pairs, k) == pairs[MaxOf({i \in DOMAIN pairs : pairs[i][1] = k})][2]

\* ---- JavaScript values ----------------------------------------------------------------------------
S(v) == [t |-> "s", v |-> v]
N(v) == [t |-> "n", v |-> v]
B(b) == [t |-> "b", v |-> b]
NullJ == [t |-> "null"]
O(m) == [t |-> "o", m |-> m]
LitVal(text) == IF text = "null" THEN NullJ ELSE IF text = "true" THEN B(TRUE) ELSE IF text = "false" THEN B(FALSE) ELSE N(text)
IsNullish(vars, n) == n \notin DOMAIN vars \/ vars[n].t = "null"

\* getStoreKeyChunkForArgumentValue
RECURSIVE KeyChunkVal(_, _)
KeyChunkVal(av, vars) ==
  CASE av.kind = "Object" -> O([k \in {av.value[i][1] : i \in DOMAIN av.value} |-> KeyChunkVal(LastNamed(av.value, k), vars)])
    [] av.kind = "Literal" -> LitVal(av.value)
    [] av.kind = "Variable" -> IF IsNullish(vars, av.name) THEN S("null") ELSE vars[av.name]      \* variables[name] ?? 'null'
    [] OTHER -> S(av.value)                                                                    \* String, Enum

\* JSON.stringify(stableCopy(x)) as a canonical structure; `${chunk}` of a primitive as its text
RECURSIVE JV(_)
JV(v) == CASE v.t = "s" -> <<"s", v.v>>
           [] v.t = "n" -> <<"n", v.v>>
           [] v.t = "b" -> <<"b", v.v>>
           [] v.t = "null" -> <<"z">>
           [] OTHER -> <<"o", {<<k, JV(v.m[k])>> : k \in DOMAIN v.m}>>
Chunk(v) == CASE v.t \in {"s", "n"} -> <<"str", v.v>>
              [] v.t = "b" -> <<"str", IF v.v THEN "true" ELSE "false">>
              [] v.t = "null" -> <<"str", "null">>           \* typeof null === 'object' -> JSON.stringify(null)
              [] OTHER -> <<"json", JV(v)>>
\* getParentRecordKey: fieldName + one chunk per argument, in order
ArgChunks(n, vars) == [i \in DOMAIN ArgsOf(n) |-> <<ArgsOf(n)[i][1], Chunk(KeyChunkVal(ArgsOf(n)[i][2], vars))>>]
ParentKey(n, vars) == <<n.fieldName, ArgChunks(n, vars)>>

\* getNetworkResponseKey / getArgumentValueChunk (string arguments restricted to word characters, so that
\* replaceAll(/\W/g, '_') is the identity)
RECURSIVE ArgChunkStr(_), JoinObj(_, _)
JoinObj(pairs, i) == IF i > Len(pairs) THEN ""
                     ELSE (IF i > 1 THEN "_" ELSE "") \o pairs[i][1] \o "__" \o ArgChunkStr(pairs[i][2]) \o JoinObj(pairs, i + 1)
ArgChunkStr(av) ==
  CASE av.kind = "Object" -> "o_" \o JoinObj(av.value, 1) \o "_c"
    [] av.kind = "Literal" -> "l_" \o av.value
    [] av.kind = "Variable" -> "v_" \o av.name
    [] av.kind = "String" -> "s_" \o av.value
    [] OTHER -> "e_" \o av.value
RECURSIVE NetKeyFrom(_, _)
NetKeyFrom(args, i) == IF i > Len(args) THEN "" ELSE "____" \o args[i][1] \o "___" \o ArgChunkStr(args[i][2]) \o NetKeyFrom(args, i + 1)
NetKey(n) == n.fieldName \o NetKeyFrom(ArgsOf(n), 1)

\* generateChildVariableMap
RECURSIVE GenChild(_, _)
GenChild(vars, args) ==
  LET names == {args[i][1] : i \in DOMAIN args}
      present == {k \in names : LET v == LastNamed(args, k) IN ~(v.kind = "Variable" /\ IsNullish(vars, v.name))}
  IN [k \in present |-> LET v == LastNamed(args, k)
                        IN CASE v.kind = "Object" -> O(GenChild(vars, v.value))
                             [] v.kind = "Variable" -> vars[v.name]
                             [] v.kind = "Literal" -> LitVal(v.value)
                             [] OTHER -> S(v.value)]

\* ---- network responses ---------------------------------------------------------------------------------
NullR == [t |-> "null"]
Undef == [t |-> "undef"]
IsNullishR(v) == v.t \in {"null", "undef"}
GetF(obj, key) == IF key \in DOMAIN obj.f THEN obj.f[key] ELSE Undef
TypenameOf(obj) == IF "__typename" \in DOMAIN obj.f /\ obj.f["__typename"].t = "tn" THEN obj.f["__typename"].v ELSE ""
HasIdR(obj) == "id" \in DOMAIN obj.f /\ obj.f["id"].t = "id"

\* ---- normalization (cache.ts) -------------------------------------------------------------------------
RootId == <<"root">>
W(rk, fk, v) == [rk |-> rk, fk |-> fk, v |-> v]
Throw(what) == [rk |-> <<"$throw", <<"$throw">>>>, fk |-> <<"$throw", <<>>>>, v |-> [t |-> "throw", what |-> what]]

RECURSIVE NormSels(_, _, _, _, _)
\* normalizeNetworkResponseObject (+ getDataIdOfNetworkResponse): -> [link, writes]
NormObject(n, item, rk, vars, index) ==
  LET tn == IF Has(n, "concreteType") THEN n.concreteType ELSE TypenameOf(item)          \* concreteType ?? __typename
  IN IF tn = "" THEN [link |-> NullR, writes |-> <<Throw("Unexpected missing __typename in network response")>>]
     ELSE LET id == IF tn = "Query" THEN RootId
                    ELSE IF HasIdR(item) THEN <<"id", item.f["id"].v>>
                    ELSE <<"path", rk[1], rk[2], n.fieldName, index, ArgChunks(n, vars)>>
          IN [link |-> [t |-> "link", tn |-> tn, id |-> id], writes |-> NormSels(n.selections, 1, item, <<tn, id>>, vars)]

RECURSIVE NormItems(_, _, _, _, _)
\* the loop of normalizeLinkedField over an array: -> [items (links / null), writes]
NormItems(n, items, i, rk, vars) ==
  IF i > Len(items) THEN [items |-> <<>>, writes |-> <<>>]
  ELSE LET rest == NormItems(n, items, i + 1, rk, vars)
       IN IF IsNullishR(items[i]) THEN [items |-> <<NullR>> \o rest.items, writes |-> rest.writes]
          ELSE LET o == NormObject(n, items[i], rk, vars, i - 1)
               IN [items |-> <<o.link>> \o rest.items, writes |-> o.writes \o rest.writes]

NormNode(n, obj, rk, vars) ==
  CASE n.kind = "Scalar" ->
         LET d == GetF(obj, NetKey(n)) IN <<W(rk, ParentKey(n, vars), IF IsNullishR(d) THEN NullR ELSE d)>>
    [] n.kind = "Linked" ->
         LET d == GetF(obj, NetKey(n))
         IN IF IsNullishR(d) THEN <<W(rk, ParentKey(n, vars), NullR)>>
            ELSE IF d.t = "list"
              THEN LET r == NormItems(n, d.items, 1, rk, vars)
                   IN r.writes \o <<W(rk, ParentKey(n, vars), [t |-> "links", items |-> r.items])>>
            ELSE IF d.t = "obj"
              THEN LET o == NormObject(n, d, rk, vars, -1) IN o.writes \o <<W(rk, ParentKey(n, vars), o.link)>>
            ELSE <<Throw("linked field with a scalar value")>>
    [] n.kind = "InlineFragment" ->
         IF TypenameOf(obj) = n.type THEN NormSels(n.selections, 1, obj, rk, vars) ELSE <<>>
    [] OTHER -> <<Throw("unknown normalization node")>>
NormSels(sels, i, obj, rk, vars) ==
  IF i > Len(sels) THEN <<>> ELSE NormNode(sels[i], obj, rk, vars) \o NormSels(sels, i + 1, obj, rk, vars)

\* normalizeData: the writes, in order (a later write to the same record key and field wins)
Normalize(normSels, response, rootKey, vars) == NormSels(normSels, 1, response, rootKey, vars)

StoreOf(writes) ==
  LET rks == {writes[i].rk : i \in DOMAIN writes}
  IN [rk \in rks |->
        LET is == {i \in DOMAIN writes : writes[i].rk = rk}
        IN [fk \in {writes[i].fk : i \in is} |-> writes[MaxOf({i \in is : writes[i].fk = fk})].v]]
Throws(writes) == {writes[i].v.what : i \in {j \in DOMAIN writes : writes[j].v.t = "throw"}}

\* the base store layer always has Query:__ROOT
RecExists(ST, rk) == rk \in DOMAIN ST \/ rk = <<"Query", RootId>>
Get(ST, rk, fk) == IF rk \in DOMAIN ST /\ fk \in DOMAIN ST[rk] THEN ST[rk][fk] ELSE Undef

\* ---- reading (read.ts) ----------------------------------------------------------------------------------
Ok(links) == [k |-> "ok", links |-> links]
Miss(why, path, key) == [k |-> "missing", why |-> why, path |-> path, key |-> key]
IdField == [kind |-> "Scalar", fieldName |-> "id"]
IsPointerNode(n) == n.kind = "Linked" /\ Has(n, "refetchQueryIndex")
LinkKey(l) == <<l.tn, l.id>>

RECURSIVE ReadFields(_, _, _, _, _, _, _)
\* readData: the record must exist; then every field in order, returning the first MissingData
ReadData(ast, link, vars, ST, path) ==
  IF ~RecExists(ST, LinkKey(link)) THEN Miss("No record for root", path, <<"$record">>)
  ELSE ReadFields(ast, 1, link, vars, ST, path, {})

\* readClientPointerData: reads `id` of the target record; the pointer's selections are behind the boundary
ReadPointerTarget(link, vars, ST, path) == ReadData(<<IdField>>, link, vars, ST, path)

RECURSIVE ReadItems(_, _, _, _, _, _)
ReadItems(n, items, i, vars, ST, path) ==
  IF i > Len(items) THEN Ok({})
  ELSE IF items[i].t # "link" THEN ReadItems(n, items, i + 1, vars, ST, path)           \* null item
  ELSE LET r == IF IsPointerNode(n) THEN ReadPointerTarget(items[i], vars, ST, path)
                ELSE ReadData(n.selections, items[i], vars, ST, path)
       IN IF r.k = "missing" THEN r
          ELSE LET rest == ReadItems(n, items, i + 1, vars, ST, path)
               IN IF rest.k = "missing" THEN rest ELSE Ok(r.links \cup rest.links)

\* the tail of readLinkedFieldData, once `value` is known
ReadLinkedValue(n, value, vars, ST, path) ==
  CASE value.t = "links" -> ReadItems(n, value.items, 1, vars, ST, path)
    [] value.t = "undef" -> Miss("No link for", path, ParentKey(n, vars))        \* no missingFieldHandler
    [] value.t = "null" -> Ok({})
    [] value.t = "link" -> IF IsPointerNode(n) THEN ReadPointerTarget(value, vars, ST, path)
                           ELSE ReadData(n.selections, value, vars, ST, path)
    [] OTHER -> Miss("Invalid link", path, <<n.fieldName>>)

RECURSIVE FirstMissing(_, _, _, _, _)
\* a client pointer's resolver is user code: it may return null or any link it was given (Link fields of its data)
FirstMissing(n, choices, vars, ST, path) ==
  IF choices = {} THEN Ok({})
  ELSE LET c == CHOOSE x \in choices : TRUE
           r == ReadLinkedValue(n, c, vars, ST, path)
       IN IF r.k = "missing" THEN r ELSE FirstMissing(n, choices \ {c}, vars, ST, path)

ReadNode(n, link, vars, ST, path) ==
  LET here == Append(path, IF Has(n, "alias") THEN n.alias ELSE IF Has(n, "fieldName") THEN n.fieldName ELSE n.kind)
  IN CASE n.kind = "Scalar" ->
            IF Get(ST, LinkKey(link), ParentKey(n, vars)).t = "undef"
              THEN Miss("No value for", here, ParentKey(n, vars)) ELSE Ok({})
       [] n.kind = "Link" -> Ok({link})
       [] n.kind = "Linked" ->
            IF Has(n, "condition") THEN
              LET c == ReadData(n.condition.ast, link, vars, ST, Append(here, "$cond"))       \* same variables, same root
              IN IF c.k = "missing" THEN c
                 ELSE IF IsPointerNode(n) THEN FirstMissing(n, {NullR} \cup c.links, vars, ST, here)
                 ELSE LET tnv == Get(ST, LinkKey(link), <<"__typename", <<>>>>)
                          refined == Has(n.condition, "refineTo") /\ tnv.t = "tn" /\ tnv.v = n.condition.refineTo
                      IN ReadLinkedValue(n, IF refined THEN link ELSE NullR, vars, ST, here)
            ELSE ReadLinkedValue(n, Get(ST, LinkKey(link), ParentKey(n, vars)), vars, ST, here)
       [] n.kind = "Resolver" ->
            \* EagerReaderArtifact: read in place; ComponentReaderArtifact: read when the component renders, from the
            \* same root with the same child variables — the property quantifies over every reachable reader
            ReadData(n.readerArtifact.ast, link, GenChild(vars, ArgsOf(n)), ST, here)
       [] n.kind = "ImperativelyLoadedField" -> ReadData(n.refetchReaderArtifact.ast, link, vars, ST, here)
       [] n.kind = "LoadablySelectedField" -> ReadData(n.refetchReaderAst, link, vars, ST, here)
       [] OTHER -> Miss("unknown reader node", here, <<n.kind>>)

ReadFields(ast, i, link, vars, ST, path, acc) ==
  IF i > Len(ast) THEN Ok(acc)
  ELSE LET r == ReadNode(ast[i], link, vars, ST, path)
       IN IF r.k = "missing" THEN r ELSE ReadFields(ast, i + 1, link, vars, ST, path, acc \cup r.links)

\* ---- conforming responses, enumerated from the operation tree and the schema -------------------------------
ConcreteTypes(T) ==
  IF Types[T].kind = "object" THEN {T}
  ELSE IF Types[T].kind = "union" THEN Range(Types[T].members)
  ELSE {n \in TypeNames : Types[n].kind = "object" /\ T \in Range(Types[n].implements)}
IsLeafType(st) == ~HasFields(BaseName(st)) /\ ~(BaseName(st) \in TypeNames /\ Types[BaseName(st)].kind = "union")
Applies(fragOn, C) == fragOn = C \/ (fragOn \in TypeNames /\ Types[fragOn].kind = "interface" /\ fragOn \in Range(Types[C].implements))
                      \/ (fragOn \in TypeNames /\ Types[fragOn].kind = "union" /\ C \in Range(Types[fragOn].members))

\* the field selections that apply to an object of concrete type C, by response key
RECURSIVE FieldsFor(_, _)
FieldsFor(sels, C) ==
  UNION {IF sels[i].t = "field" THEN {sels[i]} ELSE IF Applies(sels[i].on, C) THEN FieldsFor(sels[i].selections, C) ELSE {}
         : i \in DOMAIN sels}
RECURSIVE SortedKeys(_)
SortedKeys(K) == IF K = {} THEN <<>> ELSE LET k == CHOOSE x \in K : TRUE IN <<k>> \o SortedKeys(K \ {k})

\* M: [nulls |-> every nullable leaf is null (TRUE) or non-null (FALSE), maxLen |-> [depth -> max list length]]
MaxLenAt(M, d) == IF d + 1 \in DOMAIN M.maxLen THEN M.maxLen[d + 1] ELSE M.maxLen[Len(M.maxLen)]

RECURSIVE ObjChoices(_, _, _, _, _), ProdKeys(_, _, _, _, _, _), TChoices(_, _, _, _, _), TChoices1(_, _, _, _, _), ListChoices(_, _, _, _, _, _)
ValChoices(node, C, path, M, d) ==
  IF node.name = "__typename" THEN {[t |-> "tn", v |-> C]}
  ELSE IF node.name = "id" /\ "id" \in FieldsOf(C) THEN {[t |-> "id", v |-> path]}       \* every object gets its own id
  ELSE IF node.name \notin FieldsOf(C) THEN {[t |-> "val"]}
  ELSE TChoices(FieldDef(C, node.name).type, node, path, M, d)

\* a (possibly nullable) type
TChoices(st, node, path, M, d) ==
  IF IsLeafType(st) THEN {IF IsNullable(st) /\ M.nulls THEN NullR ELSE [t |-> "val"]}
  ELSE IF st.k = "nonnull" THEN TChoices1(st.of, node, path, M, d)
  ELSE {NullR} \cup TChoices1(st, node, path, M, d)
\* a non-null object-ish type: list or named
TChoices1(st, node, path, M, d) ==
  IF st.k = "list" THEN {[t |-> "list", items |-> s] : s \in ListChoices(st.of, node, path, M, d, MaxLenAt(M, d))}
  ELSE {[t |-> "obj", f |-> g] : g \in UNION {ObjChoices(node.selections, C, path, M, d + 1) : C \in ConcreteTypes(st.n)}}
\* sequences of length 0..len
ListChoices(elt, node, path, M, d, len) ==
  IF len = 0 THEN {<<>>}
  ELSE LET shorter == ListChoices(elt, node, path, M, d, len - 1)
       IN shorter \cup {Append(s, e) : s \in {x \in shorter : Len(x) = len - 1}, e \in TChoices(elt, node, Append(path, len), M, d)}

ProdKeys(keys, fields, C, path, M, d) ==
  IF keys = <<>> THEN {<< >>}
  ELSE LET k == Head(keys)
           node == CHOOSE f \in fields : f.key = k
       IN {(k :> v) @@ g : v \in ValChoices(node, C, Append(path, k), M, d), g \in ProdKeys(Tail(keys), fields, C, path, M, d)}
ObjChoices(sels, C, path, M, d) ==
  LET fields == FieldsFor(sels, C) IN ProdKeys(SortedKeys({f.key : f \in fields}), fields, C, path, M, d)

RootTypeOf(op) == IF op.kind = "mutation" THEN "Mutation" ELSE "Query"
Responses(op, M) == {[t |-> "obj", f |-> g] : g \in ObjChoices(op.selections, RootTypeOf(op), <<>>, M, 0)}

\* ---- variable valuations: a non-null variable has a value of its own; a nullable one is also tried as null/absent ----
\* (E.vars: the variables the entrypoint's client field DECLARES — what a caller may pass —, not the ones the operation text declares)
NullableVars(E) == {E.vars[i].name : i \in {j \in DOMAIN E.vars : E.vars[j].type.k # "nonnull"}}
Valuation(E, nulls) == [n \in {E.vars[i].name : i \in DOMAIN E.vars} \ nulls |-> S("$" \o n)]

\* ---- consistent responses ----------------------------------------------------------------------------------------
\* The store identifies a field of a record by field name + argument VALUES.  Two differently aliased selections of
\* one record whose argument values coincide under a valuation (pets(first: $k) with k = null next to pets(first: null))
\* are the same field call; a server answers them identically, but Responses gives every position its own objects.
\* Such (valuation, operation) pairs are skipped (counted), not judged.
RECURSIVE FlatNodes(_, _)
\* the Scalar / Linked nodes that are normalized into one record: the list's own and those of its inline fragments
FlatNodes(sels, i) ==
  IF i > Len(sels) THEN <<>>
  ELSE (IF sels[i].kind = "InlineFragment" THEN FlatNodes(sels[i].selections, 1) ELSE <<sels[i]>>) \o FlatNodes(sels, i + 1)
RECURSIVE KeyCollision(_, _)
KeyCollision(sels, vars) ==
  LET ns == FlatNodes(sels, 1)
  IN \/ \E i, j \in DOMAIN ns : i < j /\ NetKey(ns[i]) # NetKey(ns[j]) /\ ParentKey(ns[i], vars) = ParentKey(ns[j], vars)
     \/ \E i \in DOMAIN ns : ns[i].kind = "Linked" /\ KeyCollision(ns[i].selections, vars)

\* ---- one experiment -------------------------------------------------------------------------------------------
\* E: bundle; -> [k |-> "ok"] | [k |-> "missing", ...] | [k |-> "throws", what]
Experiment(E, response, vars) ==
  LET rootKey == <<E.concreteType, RootId>>
      writes == Normalize(E.norm, response, rootKey, vars)
  IN IF Throws(writes) # {} THEN [k |-> "throws", what |-> Throws(writes)]
     ELSE ReadData(E.reader.ast, [t |-> "link", tn |-> E.concreteType, id |-> RootId], vars, StoreOf(writes), <<>>)
=============================================================================
