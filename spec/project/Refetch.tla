------------------------------- MODULE Refetch -------------------------------
(* C25 — refetch references resolve to the refetch query for that field.

   The runtime (libs/isograph-react/src/core/read.ts) selects a refetch query by COMPOSING index
   lists along the chain of readers:
       entrypoint.readerWithRefetchQueries.nestedRefetchQueries                       (the root list)
       readResolverFieldData:   child list = usedRefetchQueries.map(i => parentList[i])
       readImperativelyLoadedField / readClientPointerData:  parentList[refetchQueryIndex]
       readLinkedFieldData (condition reader, client pointer selections): the parent's list unchanged
       readLoadablySelectedFieldData: no index — field.entrypoint
   `Walk` below follows exactly that composition over the reader ASTs recorded from the real
   compiler output (one self-contained `bundle` per entrypoint, see engines/proj_pc_common.py).

   Ground truth for "the one generated for that same field at that same position" does NOT come
   from the index arithmetic.  It comes from the artifacts and the abstract program:
     (a) the selected operation is named for the field (<EntrypointParent>__<field>) and has the
         shape of the field's refetch strategy (node(id: $id) { ... on T }  /  the @exposeField path);
     (b) it declares (and the wrapper allows) the variables that strategy needs;
     (c) its inner selection is exactly (as a set of field paths with variable-substituted arguments,
         modulo the id / __typename scalars the compiler adds everywhere) the sub-tree that the
         entrypoint's normalization AST has at the position reached by following the reader chain;
         for a client pointer (whose sub-tree is not part of the entrypoint's normalization AST) and a
         loadable field: exactly what the reader of that selection needs (`Needs`).
   `Expected` computes from the abstract program which refetchable selections must be reachable;
   the walk over the artifacts must find exactly those.                                          *)
EXTENDS IsoProgram, Integers

Has(r, f) == f \in DOMAIN r
ArgsOf(n) == IF Has(n, "arguments") THEN n.arguments ELSE <<>>
AliasOf(n) == IF Has(n, "alias") THEN n.alias ELSE n.fieldName
Range(s) == {s[i] : i \in DOMAIN s}

\* ---- argument values ---------------------------------------------------------------------
\* AST values: [kind |-> "Variable", name] | [kind |-> "Literal" | "String" | "Enum", value] | [kind |-> "Object", value |-> << <<k, v>> >>]
NullLit == [kind |-> "Literal", value |-> "null"]
RootVM == [root |-> TRUE]
ChildVM(m) == [root |-> FALSE, m |-> m]

RECURSIVE SubstVal(_, _)
SubstVal(v, vm) ==
  IF v.kind = "Variable"
    THEN (IF vm.root THEN v ELSE IF v.name \in DOMAIN vm.m THEN vm.m[v.name] ELSE NullLit)
    ELSE IF v.kind = "Object"
      THEN [kind |-> "Object", value |-> [i \in DOMAIN v.value |-> <<v.value[i][1], SubstVal(v.value[i][2], vm)>>]]
      ELSE v

\* generateChildVariableMap, symbolically (values stay expressed in the entrypoint's variables)
ChildVars(args, vm) ==
  ChildVM([n \in {args[i][1] : i \in DOMAIN args} |->
             SubstVal(args[CHOOSE i \in DOMAIN args : args[i][1] = n /\ \A j \in DOMAIN args : args[j][1] = n => j <= i][2], vm)])

\* canonical form: two values with the same canonical form give the same store key for every
\* valuation of the entrypoint's variables (getStoreKeyChunkForArgumentValue)
RECURSIVE JV(_)
JV(v) == CASE v.kind = "Variable" -> <<"var", v.name>>
           [] v.kind \in {"String", "Enum"} -> <<"s", v.value>>
           [] v.kind = "Literal" -> <<"l", v.value>>
           [] v.kind = "Object" -> <<"o", {<<v.value[i][1], JV(v.value[i][2])>> : i \in DOMAIN v.value}>>
           [] OTHER -> <<"?", v.kind>>
CV(v) == CASE v.kind = "Variable" -> <<"var", v.name>>
           [] v.kind \in {"String", "Enum", "Literal"} -> <<"lit", v.value>>
           [] OTHER -> JV(v)
CanonArgs(args, vm) == [i \in DOMAIN args |-> <<args[i][1], CV(SubstVal(args[i][2], vm))>>]

FStep(n, vm) == <<"f", n.fieldName, CanonArgs(ArgsOf(n), vm)>>
OnStep(t) == <<"on", t>>
IsAuto(n) == n.kind = "Scalar" /\ n.fieldName \in {"id", "__typename"} /\ ArgsOf(n) = <<>>

\* ---- what a normalization AST provides / what a reader needs, as sets of field paths ----------
RECURSIVE Prov(_)
ProvNode(n) ==
  CASE n.kind = "Scalar" -> IF IsAuto(n) THEN {} ELSE {<<FStep(n, RootVM)>>}
    [] n.kind = "Linked" -> {<<FStep(n, RootVM)>>} \cup {<<FStep(n, RootVM)>> \o p : p \in Prov(n.selections)}
    [] n.kind = "InlineFragment" -> {<<OnStep(n.type)>>} \cup {<<OnStep(n.type)>> \o p : p \in Prov(n.selections)}
    [] OTHER -> {<< <<"?", n.kind>> >>}
Prov(sels) == UNION {ProvNode(sels[i]) : i \in DOMAIN sels}

IsPointerNode(n) == n.kind = "Linked" /\ Has(n, "refetchQueryIndex")
IsRefineNode(n) == n.kind = "Linked" /\ Has(n, "condition") /\ ~Has(n, "refetchQueryIndex")

RECURSIVE Needs(_, _)
NeedsNode(n, vm) ==
  CASE n.kind = "Scalar" -> IF IsAuto(n) THEN {} ELSE {<<FStep(n, vm)>>}
    [] n.kind = "Link" -> {}
    [] n.kind = "Linked" ->
         IF IsPointerNode(n) THEN Needs(n.condition.ast, vm)
         ELSE IF IsRefineNode(n)
           THEN LET t == IF Has(n.condition, "refineTo") THEN n.condition.refineTo ELSE "?"
                IN {<<OnStep(t)>>} \cup {<<OnStep(t)>> \o p : p \in Needs(n.selections, vm)}
           ELSE {<<FStep(n, vm)>>} \cup {<<FStep(n, vm)>> \o p : p \in Needs(n.selections, vm)}
    [] n.kind = "Resolver" -> Needs(n.readerArtifact.ast, ChildVars(ArgsOf(n), vm))
    [] n.kind = "ImperativelyLoadedField" -> Needs(n.refetchReaderArtifact.ast, vm)
    [] n.kind = "LoadablySelectedField" -> Needs(n.refetchReaderAst, vm)
    [] OTHER -> {<< <<"?", n.kind>> >>}
Needs(ast, vm) == UNION {NeedsNode(ast[i], vm) : i \in DOMAIN ast}

\* ---- positions in the entrypoint's normalization AST ------------------------------------------
\* pos = [all |-> set of selection lists that are normalized into the current record,
\*        inner |-> the lists that ARE the position (what the compiler calls the sub-tree here)]
LinkedChildren(lists, fname, cargs) ==
  UNION {{ls[i].selections : i \in {j \in DOMAIN ls : ls[j].kind = "Linked" /\ ls[j].fieldName = fname
                                                        /\ CanonArgs(ArgsOf(ls[j]), RootVM) = cargs}} : ls \in lists}
FragChildren(lists, t) ==
  UNION {{ls[i].selections : i \in {j \in DOMAIN ls : ls[j].kind = "InlineFragment" /\ ls[j].type = t}} : ls \in lists}
\*        at |-> the position's name: the steps from the root of the operation]
PosLinked(pos, fname, cargs) == [all |-> LinkedChildren(pos.all, fname, cargs), inner |-> LinkedChildren(pos.inner, fname, cargs),
                                 at |-> Append(pos.at, <<"f", fname, cargs>>)]
PosFrag(pos, t) == [all |-> pos.all \cup FragChildren(pos.all, t), inner |-> FragChildren(pos.inner, t), at |-> Append(pos.at, OnStep(t))]
PosOf(sels, at) == [all |-> {sels}, inner |-> {sels}, at |-> at]
NoPos(at) == [all |-> {}, inner |-> {}, at |-> at]
ProvPos(pos) == UNION {Prov(ls) : ls \in pos.inner}

\* ---- the shape of a refetch query ------------------------------------------------------------
\* wrap: << [f |-> field] | [on |-> Type ("" = any single fragment)] >>; every level of the wrapper must
\* contain the wrapper node and otherwise only id / __typename
RECURSIVE Descend(_, _)
Descend(sels, wrap) ==
  IF wrap = <<>> THEN [ok |-> TRUE, sels |-> sels]
  ELSE LET w == Head(wrap)
           cands == IF Has(w, "f")
                      THEN {i \in DOMAIN sels : sels[i].kind = "Linked" /\ sels[i].fieldName = w.f}
                      ELSE {i \in DOMAIN sels : sels[i].kind = "InlineFragment" /\ (w.on = "" \/ sels[i].type = w.on)}
       IN IF Cardinality(cands) # 1 \/ \E i \in DOMAIN sels : i \notin cands /\ ~IsAuto(sels[i])
            THEN [ok |-> FALSE, sels |-> <<>>]
            ELSE Descend(sels[CHOOSE i \in cands : TRUE].selections, Tail(wrap))

IdType == NonNull(Named("ID"))
VarNames(op) == {op.vars[i].name : i \in DOMAIN op.vars}
VarType(op, n) == (CHOOSE i \in DOMAIN op.vars : op.vars[i].name = n)
DeclaresId(op) == \E i \in DOMAIN op.vars : op.vars[i].name = "id" /\ op.vars[i].type = IdType
FirstArgsAreVars(norm, f, names) ==
  \E i \in DOMAIN norm : /\ norm[i].kind = "Linked" /\ norm[i].fieldName = f
                         /\ \A n \in names : \E j \in DOMAIN ArgsOf(norm[i]) :
                               ArgsOf(norm[i])[j] = <<n, [kind |-> "Variable", name |-> n]>>

NodeWrap(t) == << [f |-> "node"], [on |-> t] >>

\* problems of a refetch query `q` (an element of bundle.nested) selected for an imperatively loaded
\* field `name` on type `on` at position `pos`, in the entrypoint whose parent type is `root`
\*   expose: the @exposeField table (name -> [root, path, first]); schemaKnown: argument types can be looked up
ImperativeProblems(q, name, on, pos, root, expose, schemaKnown) ==
  LET isExpose == name \in DOMAIN expose
      wrap == IF isExpose THEN expose[name].path ELSE NodeWrap(on)
      first == IF isExpose THEN expose[name].first ELSE "node"
      qroot == IF isExpose THEN expose[name].root ELSE "Query"
      needed == IF isExpose /\ schemaKnown
                  THEN {a \in DOMAIN FieldDef(qroot, first).args : ~IsNullable(FieldDef(qroot, first).args[a].type)}
                  ELSE IF isExpose THEN {} ELSE {"id"}
      d == Descend(q.norm, wrap)
  IN  (IF ~q.op.ok THEN {"refetch operation text does not parse"} ELSE
        (IF q.op.name # root \o "__" \o name THEN {"(a) operation is not named for the field"} ELSE {})
        \cup (IF q.op.kind # (IF qroot = "Mutation" THEN "mutation" ELSE "query") THEN {"(a) wrong operation kind"} ELSE {})
        \cup (IF ~(needed \subseteq VarNames(q.op)) THEN {"(b) strategy variable not declared"} ELSE {})
        \cup (IF schemaKnown /\ isExpose /\ \E a \in needed \cap VarNames(q.op) :
                   q.op.vars[VarType(q.op, a)].type # FieldDef(qroot, first).args[a].type
               THEN {"(b) strategy variable declared with another type"} ELSE {})
        \cup (IF ~isExpose /\ ~DeclaresId(q.op) THEN {"(b) id: ID! not declared"} ELSE {}))
      \cup (IF q.concreteType # qroot THEN {"(a) wrong root type"} ELSE {})
      \cup (IF ~(needed \subseteq Range(q.allowed)) THEN {"(b) strategy variable not in allowedVariables"} ELSE {})
      \cup (IF ~FirstArgsAreVars(q.norm, first, needed) THEN {"(b) strategy field does not take its variables"} ELSE {})
      \cup (IF ~d.ok THEN {"(a) refetch query does not have the shape of the field's strategy"}
            ELSE IF pos.inner = {} THEN {}      \* position not present in the entrypoint's normalization AST: C10's business
            ELSE IF Prov(d.sels) # ProvPos(pos) THEN {"(c) inner selection differs from the sub-tree at the position"} ELSE {})

\* the refetch strategy of a client pointer to type `to`: node(id: $id) { ... on to { .. } } when `to` is a concrete
\* type, node(id: $id) { .. } when it is abstract; "" = target type unknown (demos): either shape
PointerInner(q, to, schemaKnown) ==
  IF to = "" \/ ~schemaKnown
    THEN LET d == Descend(q.norm, NodeWrap(to)) IN IF d.ok THEN d ELSE Descend(q.norm, << [f |-> "node"] >>)
  ELSE IF to \in TypeNames /\ Types[to].kind = "object" THEN Descend(q.norm, NodeWrap(to))
  ELSE Descend(q.norm, << [f |-> "node"] >>)

PointerProblems(q, name, to, root, schemaKnown) ==
  LET d == PointerInner(q, to, schemaKnown)
  IN  (IF ~q.op.ok THEN {"refetch operation text does not parse"} ELSE
        (IF q.op.name # root \o "__" \o name THEN {"(a) operation is not named for the field"} ELSE {})
        \cup (IF q.op.kind # "query" THEN {"(a) wrong operation kind"} ELSE {})
        \cup (IF ~DeclaresId(q.op) THEN {"(b) id: ID! not declared"} ELSE {}))
      \cup (IF q.concreteType # "Query" THEN {"(a) wrong root type"} ELSE {})
      \cup (IF "id" \notin Range(q.allowed) THEN {"(b) strategy variable not in allowedVariables"} ELSE {})
      \cup (IF ~FirstArgsAreVars(q.norm, "node", {"id"}) THEN {"(b) strategy field does not take its variables"} ELSE {})
      \cup (IF ~d.ok THEN {"(a) refetch query does not have the shape of the field's strategy"} ELSE {})
\* (c) for client pointers is judged after the walk (PointerC): several selections of the same pointer with the same
\* arguments at the same position (under different aliases, or in different client fields) are ONE field at ONE
\* position and share one refetch query, which must carry exactly the union of what they read.

\* a loadably selected field `name` on `on`: the runtime uses field.entrypoint
LoadableProblems(n, on, bundles) ==
  IF n.entrypoint.key \notin DOMAIN bundles THEN {"entrypoint artifact of the loadable field does not exist"}
  ELSE LET e == bundles[n.entrypoint.key]
           isRoot == e.on = e.concreteType     \* a loadable field of a root type is fetched by a plain root operation
           d == IF isRoot THEN [ok |-> TRUE, sels |-> e.norm] ELSE Descend(e.norm, NodeWrap(on))
       IN (IF e.on # on \/ e.name # n.name \/ e.reader.fieldName # n.name \/ e.reader.on # on \/ e.reader.name # n.name
             THEN {"(a) entrypoint is not the one of the loadable field"} ELSE {})
          \cup (IF ~e.op.ok THEN {"entrypoint operation text does not parse"} ELSE
                 (IF e.op.name # n.name THEN {"(a) operation is not named for the field"} ELSE {})
                 \cup (IF ~isRoot /\ ~DeclaresId(e.op) THEN {"(b) id: ID! not declared"} ELSE {}))
          \cup (IF ~isRoot /\ ~FirstArgsAreVars(e.norm, "node", {"id"}) THEN {"(b) strategy field does not take its variables"} ELSE {})
          \cup (IF ~d.ok THEN {"(a) entrypoint query does not have the shape node(id) { ... on T }"}
                ELSE IF Prov(d.sels) # Needs(e.reader.ast, RootVM) THEN {"(c) inner selection differs from what the field's reader reads"} ELSE {})

\* ---- the walk (read.ts) ---------------------------------------------------------------------------
\* rq: the refetch list handed down, as indices into E.nested (0-based; -1 = the parent's index was out of range)
Compose(rq, used) == [j \in DOMAIN used |-> IF used[j] + 1 \in DOMAIN rq THEN rq[used[j] + 1] ELSE -1]
Select(rq, idx) == IF idx + 1 \in DOMAIN rq THEN rq[idx + 1] ELSE -1

Finding(path, kind, name, on, sel, problems) ==
  [path |-> path, kind |-> kind, name |-> name, on |-> on, sel |-> sel, problems |-> problems,
   provOk |-> FALSE, prov |-> {}, needs |-> {}, grp |-> <<>>, posKnown |-> FALSE]

\* C: context [E |-> bundle, bundles, expose, schemaKnown, pointerTo (<<on, name>> -> target type; "" unknown)]
RECURSIVE Walk(_, _, _, _, _, _)
WalkNode(n, pos, vm, rq, path, C) ==
  CASE n.kind \in {"Scalar", "Link"} -> {}
    [] n.kind = "Linked" ->
         IF IsPointerNode(n) THEN
           LET sel == Select(rq, n.refetchQueryIndex)
               p == Append(path, AliasOf(n))
               key == <<n.condition.on, n.condition.name>>
               to == IF key \in DOMAIN C.pointerTo THEN C.pointerTo[key] ELSE ""
               exists == sel >= 0 /\ sel + 1 \in DOMAIN C.E.nested
               q == C.E.nested[sel + 1]
               d == IF exists THEN PointerInner(q, to, C.schemaKnown) ELSE [ok |-> FALSE, sels |-> <<>>]
           IN {[Finding(p, "pointer", n.fieldName, n.condition.on, sel,
                        IF ~exists THEN {"selected refetch query does not exist"}
                        ELSE PointerProblems(q, n.fieldName, to, C.E.on, C.schemaKnown))
                  EXCEPT !.provOk = d.ok, !.prov = IF d.ok THEN Prov(d.sels) ELSE {}, !.needs = Needs(n.selections, vm),
                         !.grp = <<pos.at, n.fieldName, CanonArgs(ArgsOf(n), vm)>>, !.posKnown = pos.inner # {}]}
              \cup Walk(n.condition.ast, pos, vm, rq, Append(p, "$cond"), C)
              \cup Walk(n.selections, LET at == Append(pos.at, <<"ptr", n.fieldName, CanonArgs(ArgsOf(n), vm)>>)
                                       IN IF d.ok THEN PosOf(d.sels, at) ELSE NoPos(at), vm, rq, p, C)
         ELSE IF IsRefineNode(n) THEN
           Walk(n.selections, IF Has(n.condition, "refineTo") THEN PosFrag(pos, n.condition.refineTo) ELSE NoPos(Append(pos.at, OnStep("?"))),
                vm, rq, Append(path, AliasOf(n)), C)
         ELSE Walk(n.selections, PosLinked(pos, n.fieldName, CanonArgs(ArgsOf(n), vm)), vm, rq, Append(path, AliasOf(n)), C)
    [] n.kind = "Resolver" ->
         Walk(n.readerArtifact.ast, pos, ChildVars(ArgsOf(n), vm), Compose(rq, n.usedRefetchQueries), Append(path, n.alias), C)
    [] n.kind = "ImperativelyLoadedField" ->
         LET sel == Select(rq, n.refetchQueryIndex)
             exists == sel >= 0 /\ sel + 1 \in DOMAIN C.E.nested
         IN {Finding(Append(path, n.alias), "imperative", n.name, n.refetchReaderArtifact.on, sel,
                     IF ~exists THEN {"selected refetch query does not exist"}
                     ELSE ImperativeProblems(C.E.nested[sel + 1], n.name, n.refetchReaderArtifact.on, pos, C.E.on,
                                             C.expose, C.schemaKnown))}
    [] n.kind = "LoadablySelectedField" ->
         LET on == IF n.entrypoint.key \in DOMAIN C.bundles THEN C.bundles[n.entrypoint.key].on ELSE "?"
         IN {Finding(Append(path, n.alias), "loadable", n.name, on, -2, LoadableProblems(n, on, C.bundles))}
    [] OTHER -> {Finding(path, "unknown", n.kind, "?", -2, {"unknown reader node kind"})}
Walk(ast, pos, vm, rq, path, C) == UNION {WalkNode(ast[i], pos, vm, rq, path, C) : i \in DOMAIN ast}

\* an entrypoint on a root type reads from the root record; an entrypoint generated for a loadably selected
\* field on T is read from the T record that node(id) { ... on T } normalizes
InitPos(E) == IF E.on = E.concreteType THEN PosOf(E.norm, <<>>)
              ELSE LET d == Descend(E.norm, NodeWrap(E.on)) IN IF d.ok THEN PosOf(d.sels, <<>>) ELSE NoPos(<<>>)

FoundRaw(C) == Walk(C.E.reader.ast, InitPos(C.E), RootVM, [i \in 1..Len(C.E.nested) |-> i - 1], <<>>, C)

PointerC(f, raw) ==
  IF f.kind # "pointer" \/ ~f.provOk THEN {}
  ELSE IF f.posKnown
    THEN (IF f.prov # UNION {g.needs : g \in {h \in raw : h.kind = "pointer" /\ h.grp = f.grp}}
            THEN {"(c) inner selection differs from what the selections of the pointer at this position read"} ELSE {})
    ELSE (IF ~(f.needs \subseteq f.prov) THEN {"(c) inner selection lacks what the pointer's selections read"} ELSE {})

Found(C) == LET raw == FoundRaw(C) IN {[f EXCEPT !.problems = @ \cup PointerC(f, raw)] : f \in raw}

\* ---- what the abstract program says must be found ---------------------------------------------------
Decls(prog, k, on, name) == {d \in Range(prog.decls) : d.k = k /\ d.on = on /\ d.name = name}
IsLoadableSel(s) == \E i \in DOMAIN s.dirs : s.dirs[i].name = "loadable"
RefineNames == {"as" \o t : t \in TypeNames}
RefineTarget(name) == CHOOSE t \in TypeNames : name = "as" \o t

RECURSIVE PathType(_, _)
PathType(ty, path) ==
  IF path = <<>> THEN ty
  ELSE IF Has(Head(path), "f") THEN PathType(BaseName(FieldDef(ty, Head(path).f).type), Tail(path))
  ELSE PathType(Head(path).on, Tail(path))
ImperativeNames(ty, expose) ==
  (IF HasFields(ty) /\ "id" \in FieldsOf(ty) THEN {"__refetch"} ELSE {})
  \cup {n \in DOMAIN expose : PathType(expose[n].root, expose[n].path) = ty}

Exp(path, kind, name, on) == [path |-> path, kind |-> kind, name |-> name, on |-> on]

RECURSIVE ExpSels(_, _, _, _, _)
ExpSel(s, ty, path, prog, expose) ==
  LET al == IF s.alias = "" THEN s.name ELSE s.alias
      p == Append(path, al)
  IN IF IsLinkedSel(s) THEN
       (IF Decls(prog, "pointer", ty, s.name) # {} THEN
          LET d == CHOOSE d \in Decls(prog, "pointer", ty, s.name) : TRUE
          IN {Exp(p, "pointer", s.name, ty)} \cup ExpSels(d.sels, ty, Append(p, "$cond"), prog, expose)
             \cup ExpSels(s.sels, d.to, p, prog, expose)
        ELSE IF s.name \in RefineNames THEN ExpSels(s.sels, RefineTarget(s.name), p, prog, expose)
        ELSE ExpSels(s.sels, BaseName(FieldDef(ty, s.name).type), p, prog, expose))
     ELSE
       (IF Decls(prog, "field", ty, s.name) # {} THEN
          LET d == CHOOSE d \in Decls(prog, "field", ty, s.name) : TRUE
          IN IF IsLoadableSel(s) THEN {Exp(p, "loadable", s.name, ty)} ELSE ExpSels(d.sels, ty, p, prog, expose)
        ELSE IF s.name \in ImperativeNames(ty, expose) THEN {Exp(p, "imperative", s.name, ty)}
        ELSE {})
ExpSels(sels, ty, path, prog, expose) == UNION {ExpSel(sels[i], ty, path, prog, expose) : i \in DOMAIN sels}

Expected(prog, on, name, expose) ==
  LET d == CHOOSE d \in Decls(prog, "field", on, name) : TRUE IN ExpSels(d.sels, on, <<>>, prog, expose)

PointerTargets(prog) ==
  [k \in {<<d.on, d.name>> : d \in {x \in Range(prog.decls) : x.k = "pointer"}} |->
     (CHOOSE d \in Range(prog.decls) : d.k = "pointer" /\ d.on = k[1] /\ d.name = k[2]).to]
=============================================================================
