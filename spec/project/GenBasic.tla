------------------------------ MODULE GenBasic ------------------------------
(* Template generator: the STATES of this specification are programs.  TLC enumerates
   Init = every program of the feature model below and prints each one as JSON; Next only stutters.
   Feature model: a component User.Card with any ordered subset of four selections, a Query.Home
   field that uses it with one of several argument shapes, and an entrypoint. *)
EXTENDS IsoProgram

CONSTANT MaxPrograms     \* 0 = all

CardSels == << Scalar("name"), Scalar("age"),
               Linked("bestPet", <<Scalar("nickname")>>),
               LinkedA("pets", "somePets", << <<"first", IntV("2")>> >>, <<Scalar("nickname"), Scalar("kind")>>) >>

PetArgs == { <<>>,
             << <<"first", IntV("3")>> >>,
             << <<"first", Var("first")>> >>,
             << <<"first", IntV("-1")>>, <<"filter", ObjV(<< <<"name", StrV(<<120>>)>> >>)>> >>,
             << <<"filter", ObjV(<< <<"kind", NullV>>, <<"nested", ObjV(<< <<"minWeight", Var("first")>> >>)>> >>)>> >> }

UsesVar(args) == \E i \in DOMAIN args : args[i][2] = Var("first") \/ (args[i][2].t = "obj" /\ \E j \in DOMAIN args[i][2].fields :
                      args[i][2].fields[j][2].t = "obj")

Programs ==
  { Program(<< Component("User", "Card", <<>>, cs),
               Component("Query", "Home", IF UsesVar(pa) THEN <<VarDef("first", Named("Int"))>> ELSE <<>>,
                         << Linked("me", <<Scalar("Card")>>),
                            LinkedA("pets", "", pa, <<Scalar("nickname")>>) >>),
               Entrypoint("Query", "Home") >>)
    : cs \in (SubSeqs(CardSels) \ {<<>>}), pa \in PetArgs }

VARIABLE prog
Init == prog \in Programs
Next == UNCHANGED prog
Spec == Init /\ [][Next]_prog

Emit == PrintT(<<"PROGRAM", ToJson(prog)>>)
=============================================================================
