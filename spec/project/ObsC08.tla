------------------------------- MODULE ObsC08 -------------------------------
(* C08 (layer A): for every project the compile terminates without panicking, aborting or
   overflowing the stack, and either succeeds or reports at least one diagnostic.
   One record per compiled project:  [id, outcome, ndiag]   (ndiag = number of diagnostics reported;
   outcome "panic" = the compiler panicked (caught by the harness), "abort" = the compiler process
   died (abort / stack overflow, attributed by the driver), "timeout" = the compile did not terminate
   within the driver's per-project limit).  Instead of ndiag a record may carry
   the list `diagnostics`. *)
EXTENDS Naturals, Sequences, TLC, Json, IOUtils

Rec == ndJsonDeserialize(IOEnv.TRACE)

VARIABLE l
Init == l = 1

NDiag(r) == IF "ndiag" \in DOMAIN r THEN r.ndiag ELSE Len(r.diagnostics)

Why(r) ==
  CASE r.outcome = "ok" -> ""
    [] r.outcome = "diagnostics" -> IF NDiag(r) >= 1 THEN "" ELSE "failed without any diagnostic"
    [] r.outcome = "panic" -> "panic"
    [] r.outcome = "abort" -> "process died (abort / stack overflow)"
    [] r.outcome = "timeout" -> "did not terminate (killed by the driver after its per-project time limit)"
    [] OTHER -> "unknown outcome"

Next == /\ l <= Len(Rec)
        /\ l' = l + 1
        /\ LET r == Rec[l] w == Why(Rec[l])
           IN IF w = "" THEN TRUE ELSE PrintT(<<"BAD", ToJson([id |-> r.id, why |-> w])>>)

Spec == Init /\ [][Next]_l

AllConsumed == TLCGet("stats").diameter = Len(Rec) + 1
=============================================================================
