------------------------------ MODULE GenC24ws ------------------------------
(* C24, generator 2 (header whitespace): one fixed program with prefix-related names; the STATES
   choose one of its literals (focus) and the whitespace of that literal's header

        <lead> keyword <kw> Type <pre> . <post> name ...

   from the classes the iso lexer skips between tokens ([ \t\r\n\f\ufeff]+; <kw> must be non-empty
   to separate the two identifiers).  The transitions set one of the four gaps.  Only literals the
   real compiler ACCEPTS are judged (ObsC24 looks at outcome = "ok" only); the generator does not
   decide acceptance.  At most MaxWsDev gaps deviate from the conventional layout at once.       *)
EXTENDS IsoProgram

CONSTANTS MaxWsDev

SP == 32  TAB == 9  NL == 10  CRR == 13  FF == 12  BOM == 65279

Leads == { <<>>, <<SP>>, <<TAB>>, <<NL, NL, TAB, SP>>, <<CRR, NL, SP, SP>>, <<CRR>>, <<FF>>, <<BOM>>, <<NL, FF, SP>> }
Kws   == { <<SP, SP>>, <<TAB>>, <<NL>>, <<CRR, NL>>, <<SP, NL, SP, SP>> }
Gaps  == { <<SP>>, <<TAB>>, <<NL>> }

BaseDecls == << Field("Query", "Foo", <<>>, <<Scalar("x")>>),
                Component("Query", "FooBar", <<>>, <<Scalar("x")>>),
                Field("Foo", "Foo", <<>>, <<Scalar("x")>>),
                Pointer("Query", "Fo", "Foo", << Linked("foo", <<Scalar("__link")>>) >>),
                Entrypoint("Query", "Foo"),
                Entrypoint("Query", "FooBar") >>

VARIABLES focus, hdr      \* hdr: a function from a subset of {"lead","kw","pre","post"} to code point sequences
vars == <<focus, hdr>>

Init == focus \in DOMAIN BaseDecls /\ hdr = <<>>

CanSet(pos) == pos \notin DOMAIN hdr /\ Cardinality(DOMAIN hdr) < MaxWsDev

SetLead == /\ CanSet("lead")
           /\ \E v \in Leads : hdr' = ("lead" :> v) @@ hdr
           /\ UNCHANGED focus
SetKw   == /\ CanSet("kw")
           /\ \E v \in Kws : hdr' = ("kw" :> v) @@ hdr
           /\ UNCHANGED focus
SetPre  == /\ CanSet("pre")
           /\ \E v \in Gaps : hdr' = ("pre" :> v) @@ hdr
           /\ UNCHANGED focus
SetPost == /\ CanSet("post")
           /\ \E v \in Gaps : hdr' = ("post" :> v) @@ hdr
           /\ UNCHANGED focus

Next == SetLead \/ SetKw \/ SetPre \/ SetPost
Spec == Init /\ [][Next]_vars

Decls == [i \in DOMAIN BaseDecls |-> IF i = focus /\ hdr # <<>> THEN [hdr |-> hdr] @@ BaseDecls[i] ELSE BaseDecls[i]]
Prog == [decls |-> Decls, opt |-> "std", focus |-> focus]
Emit == PrintT(<<"PROGRAM", ToJson(Prog)>>)
=============================================================================
