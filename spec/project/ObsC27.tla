------------------------------- MODULE ObsC27 -------------------------------
(* C27 (layer A) evaluated on one record per accepted program:
     [id, schema (name), prog (abstract program), params |-> << [on, name, type] >>, raws |-> << [key, type, op] >>]
   params: the exported alias of every <T>/<N>/param_type.ts of the compile; raws: the exported alias of every
   raw_response_type.ts together with the parsed operation of the same entrypoint (query_text.ts).
   Predicates: Types.tla.                                                                              *)
EXTENDS Types, IOUtils

Rec == ndJsonDeserialize(IOEnv.TRACE)

VARIABLE l
Init == l = 1

Judge(r) ==
  LET T == TypesOf(r.schema)
  IN [bad |-> UNION {{[art |-> r.params[i].on \o "/" \o r.params[i].name \o "/param_type", at |-> pr[1], why |-> pr[2]]
                        : pr \in ParamProblems(r.params[i], r.prog, T)} : i \in DOMAIN r.params}
              \cup UNION {{[art |-> r.raws[i].key \o "/raw_response_type", at |-> pr[1], why |-> pr[2]]
                            : pr \in RawProblems(r.raws[i], T)} : i \in DOMAIN r.raws}]

Next == /\ l <= Len(Rec)
        /\ l' = l + 1
        /\ LET r == Rec[l]
               j == Judge(r)
           IN /\ PrintT(<<"STAT", ToJson([id |-> r.id, params |-> Len(r.params), raws |-> Len(r.raws)])>>)
              /\ IF j.bad = {} THEN TRUE ELSE PrintT(<<"BAD", ToJson([id |-> r.id, bad |-> j.bad])>>)

Spec == Init /\ [][Next]_l

AllConsumed == TLCGet("stats").diameter = Len(Rec) + 1
=============================================================================
