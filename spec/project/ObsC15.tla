------------------------------- MODULE ObsC15 -------------------------------
(* C15 (layer A): the generated operations and normalization ASTs of an entrypoint depend only on what its
   readers need.  For a pair (base program, edited program) related by Needs-preserving edits (GenC15.tla) the
   operation artifacts -- query_text.ts, normalization_ast.ts, __refetch__query_text__N.ts, __refetch__N.ts of
   every directory that carries a query text in the base compile (entrypoints and loadable fields) -- must be
   the same files with the same content (sha-256 of the text) after the edit.

   One record per pair:  [id, base : << [path, dir, digest] >>, cur : << [path, dir, digest] >>, curok]        *)
EXTENDS Naturals, Sequences, FiniteSets, TLC, Json, IOUtils

Rec == ndJsonDeserialize(IOEnv.TRACE)
E(why, at) == [why |-> why, at |-> at]

Dirs(fs) == {fs[i].dir : i \in DOMAIN fs}
Errs(r) ==
  IF ~r.curok THEN {E("edited-program-is-not-accepted-by-the-compiler", r.curwhy)}
  ELSE LET b == r.base  c == r.cur IN
         {E("operation-artifact-changed", b[i].path)
          : i \in {j \in DOMAIN b : \E m \in DOMAIN c : c[m].path = b[j].path /\ c[m].digest # b[j].digest}}
    \cup {E("operation-artifact-disappeared", b[i].path) : i \in {j \in DOMAIN b : \A m \in DOMAIN c : c[m].path # b[j].path}}
    \cup {E("operation-artifact-appeared", c[i].path)
          : i \in {j \in DOMAIN c : c[j].dir \in Dirs(b) /\ \A m \in DOMAIN b : b[m].path # c[j].path}}

VARIABLE l
Init == l = 1
Next == /\ l <= Len(Rec)
        /\ l' = l + 1
        /\ LET r == Rec[l]  e == Errs(Rec[l])
           IN IF e = {} THEN TRUE ELSE PrintT(<<"BAD", ToJson([id |-> r.id, errs |-> e])>>)
Spec == Init /\ [][Next]_l
AllConsumed == TLCGet("stats").diameter = Len(Rec) + 1
=============================================================================
