------------------------------- MODULE ObsC11 -------------------------------
(* C11 (layer A): each generated normalization AST has the same selection tree as the operation text it
   is shipped with: the same fields with the same arguments, the same inline fragments and nesting, and a
   concrete type exactly where the field's type (in the schema) is an object type.

   One record per successfully compiled project:
     [id, pairs : << [path, op, norm] >>]
       op   = the operation tree of the query text artifact (harness/h_compile/src/gql.rs), only when it parses
       norm = [present, parses, shape, selections] projection of the accompanying normalization AST
              (normalization_ast.ts default export / `normalizationAst` of __refetch__N.ts), nodes
                [kind |-> "Scalar", fieldName, arguments : << <<name, arg>> >>]
                [kind |-> "Linked", fieldName, arguments, concrete : [some, name], selections]
                [kind |-> "InlineFragment", type, selections]
              arg = [kind |-> "Variable", name] | [kind |-> "Literal", lit, text, v] | [kind |-> "String", cps]
                  | [kind |-> "Enum", value] | [kind |-> "Object", value : << <<name, arg>> >>]
   Printing conventions (stated): `arguments: null` = no arguments; a numeric Literal corresponds to the
   GraphQL int/float literal with the same decimal text; selection order and response aliases are not
   compared (aliases are C12's subject).  Schema from the file named by SCHEMA (Operation.tla).        *)
EXTENDS Artifacts

Rec == ndJsonDeserialize(IOEnv.TRACE)

VARIABLE l
Init == l = 1

BadPairs(r) == { [path |-> r.pairs[i].path, errs |-> PairResult(r.pairs[i])]
                 : i \in {j \in DOMAIN r.pairs : PairResult(r.pairs[j]) # {}} }

Next == /\ l <= Len(Rec)
        /\ l' = l + 1
        /\ LET r == Rec[l]  b == BadPairs(Rec[l])
           IN IF b = {} THEN TRUE ELSE PrintT(<<"BAD", ToJson([id |-> r.id, bad |-> b])>>)

Spec == Init /\ [][Next]_l

AllConsumed == TLCGet("stats").diameter = Len(Rec) + 1
=============================================================================
