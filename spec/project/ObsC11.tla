------------------------------- MODULE ObsC11 -------------------------------
(* C11 (layer A): each generated normalization AST has the same selection tree as the operation text it
   is shipped with: the same fields with the same arguments, the same inline fragments and nesting, and a
   concrete type exactly where the field's type (in the schema) is an object type.

   One record per successfully compiled project:
     [id, pairs : << [path, op, norm] >>]
       op   = the operation tree of the query text artifact (harness/h_compile/src/gql.rs), only when it parses
       norm = [present, parses, shape, selections] projection of the accompanying normalization AST
              (normalization_ast.ts default export / `normalizationAst` of __refetch__N.ts), nodes
                [kind |-> "Scalar", fieldName, arguments : << <<name, arg>> >>]
                [kind |-> "Linked", fieldName, arguments, concrete : [some, name], selections]
                [kind |-> "InlineFragment", type, selections]
              arg = [kind |-> "Variable", name] | [kind |-> "Literal", lit, text, v] | [kind |-> "String", cps]
                  | [kind |-> "Enum", value] | [kind |-> "Object", value : << <<name, arg>> >>]
   Printing conventions (stated): `arguments: null` = no arguments; a numeric Literal corresponds to the
   GraphQL int/float literal with the same decimal text; selection order and response aliases are not
   compared (aliases are C12's subject).  Schema from the file named by SCHEMA (Operation.tla).        *)
EXTENDS Operation

Rec == ndJsonDeserialize(IOEnv.TRACE)

\* canonical argument values: one record shape for both sides so that TLC can compare them
CV(t, s, c, f) == [t |-> t, s |-> s, c |-> c, f |-> f]

RECURSIVE OpVal(_)
OpVal(v) ==
  CASE v.t = "var"   -> CV("var", v.n, <<>>, <<>>)
    [] v.t = "int"   -> CV("num", v.v, <<>>, <<>>)
    [] v.t = "float" -> CV("num", v.v, <<>>, <<>>)
    [] v.t = "str"   -> CV("str", "", v.cps, <<>>)
    [] v.t = "bool"  -> CV("bool", IF v.v THEN "true" ELSE "false", <<>>, <<>>)
    [] v.t = "null"  -> CV("null", "", <<>>, <<>>)
    [] v.t = "enum"  -> CV("enum", v.v, <<>>, <<>>)
    [] v.t = "list"  -> CV("list", "", <<>>, [i \in DOMAIN v.items |-> <<"", OpVal(v.items[i])>>])
    [] v.t = "obj"   -> CV("obj", "", <<>>, [i \in DOMAIN v.fields |-> <<v.fields[i][1], OpVal(v.fields[i][2])>>])

RECURSIVE NormVal(_)
NormVal(a) ==
  CASE a.kind = "Variable" -> CV("var", a.name, <<>>, <<>>)
    [] a.kind = "Literal"  -> (CASE a.lit = "num"  -> CV("num", a.text, <<>>, <<>>)
                                 [] a.lit = "bool" -> CV("bool", a.text, <<>>, <<>>)
                                 [] a.lit = "null" -> CV("null", "", <<>>, <<>>)
                                 [] OTHER -> CV("unknown-literal", a.text, <<>>, <<>>))
    [] a.kind = "String"   -> CV("str", "", a.cps, <<>>)
    [] a.kind = "Enum"     -> CV("enum", a.value, <<>>, <<>>)
    [] a.kind = "Object"   -> CV("obj", "", <<>>, [i \in DOMAIN a.value |-> <<a.value[i][1], NormVal(a.value[i][2])>>])
    [] OTHER -> CV("unknown", a.kind, <<>>, <<>>)

HeadOf(k, name, args, n) == [k |-> k, name |-> name, args |-> args, nargs |-> n]
OpHead(s) ==
  CASE s.t = "field"  -> HeadOf("field", s.name, {<<s.args[i][1], OpVal(s.args[i][2])>> : i \in DOMAIN s.args}, Len(s.args))
    [] s.t = "inline" -> HeadOf("inline", s.on, {}, 0)
    [] OTHER          -> HeadOf("spread", s.name, {}, 0)
NormHead(n) ==
  CASE n.kind \in {"Scalar", "Linked"} -> HeadOf("field", n.fieldName, {<<n.arguments[i][1], NormVal(n.arguments[i][2])>> : i \in DOMAIN n.arguments}, Len(n.arguments))
    [] n.kind = "InlineFragment"       -> HeadOf("inline", n.type, {}, 0)
    [] OTHER                           -> HeadOf("unknown", n.kind, {}, 0)

RECURSIVE Diff(_, _, _)
PairErrs(o, n, p) ==
  IF o.t = "inline" THEN Diff(o.selections, n.selections, IF o.on = "" THEN p ELSE o.on)
  ELSE IF o.t # "field" THEN {}
  ELSE LET opLinked == Len(o.selections) > 0  nLinked == n.kind = "Linked" IN
       IF opLinked # nLinked THEN {E("linked-field-on-one-side-scalar-on-the-other", o.name)}
       ELSE IF ~opLinked THEN {}
       ELSE IF ~FieldDefined(p, o.name) THEN {}        \* the parent type does not define the field: C09's finding, nothing to compare against
       ELSE LET base == TBase(FDef(p, o.name).type) IN
               (IF KindOf(base) = "object"
                THEN IF n.concrete.some /\ n.concrete.name = base THEN {} ELSE {E("concrete-type-missing-or-wrong-where-schema-type-is-an-object-type", o.name)}
                ELSE IF n.concrete.some THEN {E("concrete-type-given-where-schema-type-is-abstract", o.name)} ELSE {})
          \cup Diff(o.selections, n.selections, base)

Diff(os, ns, p) ==
  LET oh == [i \in DOMAIN os |-> OpHead(os[i])]
      nh == [i \in DOMAIN ns |-> NormHead(ns[i])]
  IN   {E("operation-selection-without-counterpart-in-normalization-ast", oh[i].name) : i \in {j \in DOMAIN os : \A m \in DOMAIN ns : nh[m] # oh[j]}}
  \cup {E("normalization-ast-selection-without-counterpart-in-operation", nh[i].name) : i \in {j \in DOMAIN ns : \A m \in DOMAIN os : oh[m] # nh[j]}}
  \cup {E("selection-repeated-in-operation", oh[i].name) : i \in {j \in DOMAIN os : \E m \in DOMAIN os : m < j /\ oh[m] = oh[j]}}
  \cup {E("selection-repeated-in-normalization-ast", nh[i].name) : i \in {j \in DOMAIN ns : \E m \in DOMAIN ns : m < j /\ nh[m] = nh[j]}}
  \cup UNION {PairErrs(os[x[1]], ns[x[2]], p) : x \in {y \in (DOMAIN os) \X (DOMAIN ns) : oh[y[1]] = nh[y[2]]}}

PairResult(pr) ==
  IF ~pr.norm.present THEN {E("normalization-ast-artifact-missing", pr.norm.path)}
  ELSE IF ~pr.norm.parses THEN {E("normalization-ast-artifact-is-not-typescript", pr.norm.path)}
  ELSE IF ~pr.norm.shape THEN {E("normalization-ast-artifact-has-no-selections", pr.norm.path)}
  ELSE Diff(pr.op.selections, pr.norm.selections, RootType(pr.op.kind))

VARIABLE l
Init == l = 1

BadPairs(r) == { [path |-> r.pairs[i].path, errs |-> PairResult(r.pairs[i])]
                 : i \in {j \in DOMAIN r.pairs : PairResult(r.pairs[j]) # {}} }

Next == /\ l <= Len(Rec)
        /\ l' = l + 1
        /\ LET r == Rec[l]  b == BadPairs(Rec[l])
           IN IF b = {} THEN TRUE ELSE PrintT(<<"BAD", ToJson([id |-> r.id, bad |-> b])>>)

Spec == Init /\ [][Next]_l

AllConsumed == TLCGet("stats").diameter = Len(Rec) + 1
=============================================================================
