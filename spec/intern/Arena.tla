------------------------------- MODULE Arena -------------------------------
(***************************************************************************)
(* C06 - layer B: AtomicArena (relay-crates/intern/src/atomic_arena.rs)    *)
(* transcribed step by step, one action per instrumentation point          *)
(* (verif_hooks::point label = value of pc), carrying the layer-A history  *)
(* of ArenaProp as history variables.  TLC checks B => A exhaustively for  *)
(* the configured programs and emits one schedule per generated            *)
(* transition (edge cover) for replay on the real crate.                   *)
(*                                                                         *)
(* Sequentially consistent: every step is atomic, Relaxed/Acquire/Release  *)
(* are not distinguished.                                                  *)
(*                                                                         *)
(* Configurations (the engine generates one MC module with all programs):  *)
(*   PreFill : elements added sequentially before the threads start        *)
(*   Prog    : per thread, a sequence of ops [op, x]                       *)
(*               add x   add the element with value x (distinct per op)    *)
(*               get x   read the reference returned by the latest         *)
(*                       COMPLETED add of thread x (x = 0: the last        *)
(*                       sequentially added element); none yet => no-op    *)
(*               len 0   observe len()                                     *)
(*   EMIT    : 1 = print a REPLAY line per generated transition            *)
(***************************************************************************)
EXTENDS Naturals, Integers, Sequences, FiniteSets, TLC, Json, ArenaProp

CONSTANTS Configs, EMIT   \* Configs: sequence of [prefill, prog]; see MCArena.tla for an instance
VARIABLE c                \* the configuration of this behaviour (chosen in Init, never changes)
Prog    == Configs[c].prog
PreFill == Configs[c].prefill
MinSize == 128                       \* MIN_SIZE
Threads == 1 .. Len(Prog)
Buckets == 20 .. 24                  \* bucket indices that can matter for < 2048 elements

Cap(a)      == 2 ^ (31 - a)                                   \* bucket_capacity
BucketOf(i) == IF i < 256 THEN 24 ELSE IF i < 512 THEN 23 ELSE IF i < 1024 THEN 22  \* index(i).0 =
               ELSE IF i < 2048 THEN 21 ELSE 20                                     \* leading_zeros(i)
OffOf(i)    == i - Cap(BucketOf(i))                           \* index(i).1

ASSUME \A a \in Buckets : \A i \in {Cap(a), 2 * Cap(a) - 1} : BucketOf(i) = a

Pre        == [n |-> PreFill, first |-> MinSize]
PreBuckets == IF PreFill = 0 THEN {} ELSE {a \in Buckets : Cap(a) <= MinSize + PreFill - 1}
PreAlloc(a) == 25 - a                 \* allocation ids of the buckets created by the prefill

NoRes == -9
None  == -2
Uninit == -1
NullDeref == -3

VARIABLES
    next,      \* next_biased_index
    bucket,    \* [Buckets -> 0 (null) or allocation id]
    heap,      \* [<<alloc, off>> -> value]   slots written in the concurrent phase
    nalloc,    \* number of allocations made so far (ids 1..nalloc)
    mutex,     \* bucket_alloc_mutex holder, 0 = free
    pc, ip, loc,
    \* ---- layer-A history ----
    adds,      \* completed additions [k, ref, v]
    obsBad,    \* names of layer-A observation predicates that failed at a step
    maxLen,    \* largest len() observed so far
    dropped,   \* the result of Drop
    hist       \* <<t, label, result>> per step   (not part of the VIEW)

vars == <<c, next, bucket, heap, nalloc, mutex, pc, ip, loc, adds, obsBad, maxLen, dropped, hist>>
View == <<c, next, bucket, heap, nalloc, mutex, pc, ip, loc, adds, obsBad, maxLen, dropped>>

Loc0 == [v |-> 0, s |-> 0, p |-> 0, ref |-> 0]
NotDropped == [done |-> FALSE, cnt |-> <<>>, preOnce |-> 0, other |-> 0, freed |-> {}, nullBucket |-> FALSE]

Init ==
    /\ c \in DOMAIN Configs
    /\ next = MinSize + PreFill
    /\ bucket = [a \in Buckets |-> IF a \in PreBuckets THEN PreAlloc(a) ELSE 0]
    /\ heap = <<>>
    /\ nalloc = Cardinality(PreBuckets)
    /\ mutex = 0
    /\ pc = [t \in Threads |-> IF Len(Prog[t]) = 0 THEN "done" ELSE "op.call"]
    /\ ip = [t \in Threads |-> 1]
    /\ loc = [t \in Threads |-> Loc0]
    /\ adds = {}
    /\ obsBad = {}
    /\ maxLen = 0
    /\ dropped = NotDropped
    /\ hist = <<>>

(* what a read of (allocation p, offset b) yields *)
ReadAt(p, a, b) ==
    IF p = 0 THEN NullDeref
    ELSE IF p = PreAlloc(a) /\ a \in PreBuckets /\ Cap(a) + b < MinSize + PreFill
         THEN PreVal(Pre, Cap(a) + b)
    ELSE IF <<p, b>> \in DOMAIN heap THEN heap[<<p, b>>]
    ELSE Uninit

(* get(ref): through the CURRENT bucket pointer *)
Read(r) == ReadAt(bucket[BucketOf(r)], BucketOf(r), OffOf(r))

Log(t, res) == hist' = Append(hist, <<t, pc[t], res>>) /\ c' = c    \* (every step logs; c never changes)

Advance(t) ==
    /\ ip' = [ip EXCEPT ![t] = @ + 1]
    /\ pc' = [pc EXCEPT ![t] = IF ip[t] + 1 <= Len(Prog[t]) THEN "op.call" ELSE "done"]
    /\ loc' = [loc EXCEPT ![t] = Loc0]

Goto(t, l) == pc' = [pc EXCEPT ![t] = l] /\ UNCHANGED ip

LastRefOf(x) ==
    IF x = 0 THEN (IF PreFill = 0 THEN 0 ELSE MinSize + PreFill - 1)
    ELSE LET mine == {y \in adds : y.k[1] = x} IN
         IF mine = {} THEN 0
         ELSE (CHOOSE y \in mine : \A z \in mine : z.k[2] <= y.k[2]).ref

Call(t) ==
    /\ pc[t] = "op.call"
    /\ LET op == Prog[t][ip[t]] IN
       CASE op.op = "add" ->
              /\ Goto(t, "arena.fetch_add")
              /\ loc' = [loc EXCEPT ![t].v = op.x]
              /\ Log(t, NoRes)
         [] op.op = "get" ->
              LET r == LastRefOf(op.x) IN
              IF r = 0 THEN Advance(t) /\ Log(t, None)
              ELSE /\ Goto(t, "arena.get_load_bucket")
                   /\ loc' = [loc EXCEPT ![t].ref = r]
                   /\ Log(t, NoRes)
         [] op.op = "len" ->
              /\ Goto(t, "arena.len_load")
              /\ UNCHANGED loc
              /\ Log(t, NoRes)
    /\ UNCHANGED <<next, bucket, heap, nalloc, mutex, adds, obsBad, maxLen, dropped>>

FetchAdd(t) ==                                   \* linearization point of add
    /\ pc[t] = "arena.fetch_add"
    /\ loc' = [loc EXCEPT ![t].s = next]
    /\ next' = next + 1
    /\ Goto(t, "arena.load_bucket")
    /\ Log(t, NoRes)
    /\ UNCHANGED <<bucket, heap, nalloc, mutex, adds, obsBad, maxLen, dropped>>

LoadBucket(t) ==                                 \* slice_for_slot: Acquire load
    /\ pc[t] = "arena.load_bucket"
    /\ LET p == bucket[BucketOf(loc[t].s)] IN
       IF p # 0 THEN Goto(t, "arena.write_slot") /\ loc' = [loc EXCEPT ![t].p = p]
       ELSE Goto(t, "arena.lock_mutex") /\ UNCHANGED loc
    /\ Log(t, NoRes)
    /\ UNCHANGED <<next, bucket, heap, nalloc, mutex, adds, obsBad, maxLen, dropped>>

LockMutex(t) ==                                  \* slice_for_slot_slow: blocking lock
    /\ pc[t] = "arena.lock_mutex"
    /\ mutex = 0
    /\ mutex' = t
    /\ Goto(t, "arena.recheck_bucket")
    /\ Log(t, NoRes)
    /\ UNCHANGED <<next, bucket, heap, nalloc, loc, adds, obsBad, maxLen, dropped>>

RecheckBucket(t) ==                              \* re-check under the mutex
    /\ pc[t] = "arena.recheck_bucket"
    /\ LET p == bucket[BucketOf(loc[t].s)] IN
       IF p # 0 THEN Goto(t, "arena.unlock") /\ loc' = [loc EXCEPT ![t].p = p]
       ELSE Goto(t, "arena.alloc_store") /\ UNCHANGED loc
    /\ Log(t, NoRes)
    /\ UNCHANGED <<next, bucket, heap, nalloc, mutex, adds, obsBad, maxLen, dropped>>

AllocStore(t) ==                                 \* Vec::with_capacity + Release store
    /\ pc[t] = "arena.alloc_store"
    /\ nalloc' = nalloc + 1
    /\ bucket' = [bucket EXCEPT ![BucketOf(loc[t].s)] = nalloc + 1]
    /\ loc' = [loc EXCEPT ![t].p = nalloc + 1]
    /\ Goto(t, "arena.unlock")
    /\ Log(t, NoRes)
    /\ UNCHANGED <<next, heap, mutex, adds, obsBad, maxLen, dropped>>

Unlock(t) ==
    /\ pc[t] = "arena.unlock"
    /\ mutex' = 0
    /\ Goto(t, "arena.write_slot")
    /\ Log(t, NoRes)
    /\ UNCHANGED <<next, bucket, heap, nalloc, loc, adds, obsBad, maxLen, dropped>>

WriteSlot(t) ==                                  \* *e_ptr = element; return Ref(s)
    /\ pc[t] = "arena.write_slot"
    /\ heap' = (<<loc[t].p, OffOf(loc[t].s)>> :> loc[t].v) @@ heap
    /\ adds' = adds \cup {[k |-> <<t, ip[t]>>, ref |-> loc[t].s, v |-> loc[t].v]}
    /\ obsBad' = IF FreshRef(Pre, adds, loc[t].s) THEN obsBad ELSE obsBad \cup {"DistinctRefs"}
    /\ Advance(t)
    /\ Log(t, loc[t].s)
    /\ UNCHANGED <<next, bucket, nalloc, mutex, maxLen, dropped>>

Get(t) ==                                        \* get(): Relaxed bucket load + slot read
    /\ pc[t] = "arena.get_load_bucket"
    /\ LET res == Read(loc[t].ref) IN
       /\ obsBad' = IF ReadBackOK(Pre, adds, loc[t].ref, res) THEN obsBad ELSE obsBad \cup {"ReadBack"}
       /\ Log(t, res)
    /\ Advance(t)
    /\ UNCHANGED <<next, bucket, heap, nalloc, mutex, adds, maxLen, dropped>>

LenOp(t) ==                                      \* len(): Relaxed load of next_biased_index
    /\ pc[t] = "arena.len_load"
    /\ LET n == next - MinSize IN
       /\ obsBad' = IF LenMonotoneOK(maxLen, n) THEN obsBad ELSE obsBad \cup {"LenMonotone"}
       /\ maxLen' = IF n > maxLen THEN n ELSE maxLen
       /\ Log(t, n)
    /\ Advance(t)
    /\ UNCHANGED <<next, bucket, heap, nalloc, mutex, adds, dropped>>

AllDone == \A t \in Threads : pc[t] = "done"

(* impl Drop: for every bucket from the last one back to the bucket of index l-1,
   rebuild Vec<T>(ptr, sz, cap) and drop it.  The dropped slots are counted per class
   (sequentially added / written by a concurrent add / never written) instead of
   enumerating up to 512 slots per bucket. *)
Min(x, y) == IF x < y THEN x ELSE y
PreEnd(a) == Min(2 * Cap(a), MinSize + PreFill) - Cap(a)   \* offsets < PreEnd(a) of a pre-bucket are prefilled
DropArena ==
    /\ AllDone /\ ~dropped.done
    /\ LET l      == next
           lastA  == BucketOf(l - 1)
           lastB  == OffOf(l - 1)
           as     == IF l = MinSize THEN {} ELSE lastA .. 24
           sz(a)  == IF a = lastA THEN lastB + 1 ELSE Cap(a)
           \* is bucket a still the allocation the prefill made?
           isPre(a) == a \in PreBuckets /\ bucket[a] = PreAlloc(a)
           preIn(a) == IF isPre(a) THEN Min(sz(a), PreEnd(a)) ELSE 0
           \* slots written by concurrent adds that Drop visits (a prefilled slot shadows nothing: distinct offsets)
           wr(a)  == {k \in DOMAIN heap : k[1] = bucket[a] /\ k[2] < sz(a)
                                          /\ ~(isPre(a) /\ k[2] < PreEnd(a))}
           Sum(f(_), S) == LET RECURSIVE go(_)
                               go(T) == IF T = {} THEN 0 ELSE LET x == CHOOSE y \in T : TRUE IN f(x) + go(T \ {x})
                           IN go(S)
       IN dropped' = [ done   |-> TRUE,
                       cnt    |-> [v \in {x.v : x \in adds} |->
                                      Sum(LAMBDA a : Cardinality({k \in wr(a) : heap[k] = v}), as)],
                       preOnce|-> Sum(preIn, as),
                       other  |-> Sum(LAMBDA a : IF bucket[a] = 0 THEN 0
                                                 ELSE sz(a) - preIn(a) - Cardinality(wr(a)), as),
                       freed  |-> {bucket[a] : a \in as},
                       nullBucket |-> \E a \in as : bucket[a] = 0 ]
    /\ UNCHANGED <<c, next, bucket, heap, nalloc, mutex, pc, ip, loc, adds, obsBad, maxLen, hist>>

Step(t) == \/ Call(t) \/ FetchAdd(t) \/ LoadBucket(t) \/ LockMutex(t) \/ RecheckBucket(t)
           \/ AllocStore(t) \/ Unlock(t) \/ WriteSlot(t) \/ Get(t) \/ LenOp(t)

Next == (\E t \in Threads : Step(t)) \/ DropArena
        \/ (dropped.done /\ UNCHANGED vars)            \* stutter at the end: TLC checks deadlock

Spec == Init /\ [][Next]_vars

(* one REPLAY line per generated transition: shortest history reaching it *)
Emit == (EMIT = 1 /\ hist' # hist) => PrintT(<<"REPLAY", ToJson([c |-> c, h |-> hist'])>>)

---------------------------------------------------------------------------
(* B => A *)
InvDistinct  == DistinctRefs(Pre, adds)
InvReadBack  == /\ \A x \in adds : Read(x.ref) = x.v          \* from any thread at any later time
                /\ \A a \in PreBuckets :                     \* the sequentially added elements, per bucket:
                     /\ bucket[a] = PreAlloc(a)               \* first / last reference + "same allocation"
                     /\ \A r \in {Cap(a), Cap(a) + PreEnd(a) - 1} : Read(r) = PreVal(Pre, r)
InvObs       == obsBad = {}
InvQuiescent == AllDone => QuiescentLenOK(Pre, adds, next - MinSize)
InvLenBound  == maxLen <= next - MinSize
InvDrop      == dropped.done =>
                  /\ DropOK(Pre, adds, LAMBDA v : dropped.cnt[v], dropped.preOnce, dropped.other)
                  /\ ~dropped.nullBucket
                  /\ dropped.freed = 1 .. nalloc                \* each allocation freed (once: a set of distinct ids)
InvMutex     == mutex = 0 \/ pc[mutex] \in {"arena.recheck_bucket", "arena.alloc_store", "arena.unlock"}
=============================================================================
