----------------------------- MODULE InternProp -----------------------------
(***************************************************************************)
(* Layer A for C05 (first half), written from the property text only:      *)
(*                                                                         *)
(*  "For all values and all thread interleavings, interning two values     *)
(*   yields the same id exactly when the values are equal, looking up an   *)
(*   id returns a value equal to the one interned, and ids of one type are *)
(*   stable dense indices."                                                *)
(*                                                                         *)
(* History:                                                                *)
(*   pre = [n |-> k]: before the concurrent phase the values 1000 .. 999+k *)
(*         were interned sequentially on the fresh table and got the ids   *)
(*         0 .. k-1 in that order (PreOK judges that);                     *)
(*   obs = set of [k, v, id]: one record per COMPLETED call that returned  *)
(*         an id for a value (intern(v) = id, get_interned(v) = Some(id)). *)
(* Ids are the 0-based indices (`InternId::index`).                        *)
(***************************************************************************)
EXTENDS Naturals, Integers, FiniteSets

PreVals(pre) == IF pre.n = 0 THEN {} ELSE 1000 .. (999 + pre.n)
PreIds(pre)  == IF pre.n = 0 THEN {} ELSE 0 .. (pre.n - 1)
PreIdOf(v)   == v - 1000

(* same id exactly when the values are equal - over all completed calls, whenever
   they happened (this is also "ids are stable": a later call for the same value
   returns the same id) *)
Bijective(pre, obs) ==
    /\ \A x, y \in obs : (x.id = y.id) <=> (x.v = y.v)
    /\ \A x \in obs : /\ (x.v \in PreVals(pre)) <=> (x.id \in PreIds(pre))
                      /\ x.v \in PreVals(pre) => x.id = PreIdOf(x.v)

(* incremental form for one new observation o *)
BijectiveWith(pre, obs, o) ==
    /\ \A x \in obs : (x.id = o.id) <=> (x.v = o.v)
    /\ (o.v \in PreVals(pre)) <=> (o.id \in PreIds(pre))
    /\ o.v \in PreVals(pre) => o.id = PreIdOf(o.v)

(* looking up `id` (returned by calls in obs that completed before the lookup
   started) returned w *)
LookupOK(pre, obs, id, w) ==
    /\ \A x \in obs : x.id = id => w = x.v
    /\ id \in PreIds(pre) => w = 1000 + id

(* all calls have finished: the ids handed out are exactly 0 .. n-1 for the n
   distinct values interned, and the table reports n entries
   (more entries than values = a value got two slots) *)
DenseOK(pre, obs, len) ==
    LET vals == {x.v : x \in obs} \cup PreVals(pre)
        ids  == {x.id : x \in obs} \cup PreIds(pre)
    IN /\ ids = 0 .. (Cardinality(vals) - 1)
       /\ len = Cardinality(vals)

(* an id observed while others are still running is already a valid dense index
   of the table as it is later seen: id < every len() that starts afterwards *)
IdBelowLen(id, len) == id < len
=============================================================================
