---------------------------- MODULE InternTable ----------------------------
(***************************************************************************)
(* C05 - layer B: InternTable::intern / get_interned / get / len           *)
(* (relay-crates/intern/src/intern.rs) over ShardedSet::get_or_insert_lock *)
(* (sharded_set.rs) and AtomicArena::add (atomic_arena.rs), one action per *)
(* instrumentation point (pc value = verif_hooks label), with the layer-A  *)
(* history of InternProp.  Sequentially consistent.                        *)
(*                                                                         *)
(* Constants (the engine generates an MC module per program):              *)
(*   PreFill : values 1000.. interned sequentially before the threads      *)
(*             start (0 = the table is untouched: the lazy OnceCell        *)
(*             initialisation of the shards is raced as well)              *)
(*   Prog    : per thread a sequence of ops [op, x]                        *)
(*               intern x   intern value x                                 *)
(*               getint x   get_interned(x)                                *)
(*               lookup x   get(id) for the id returned by the latest      *)
(*                          COMPLETED intern of thread x (0: the last      *)
(*                          sequentially interned value); none => no-op    *)
(*               len 0      table.len()                                    *)
(*   ShardOf : [value -> shard]  (the engine picks real values whose fnv   *)
(*             hashes land in the same / in different shards)              *)
(***************************************************************************)
EXTENDS Naturals, Integers, Sequences, FiniteSets, TLC, Json, InternProp

CONSTANTS Configs, ShardOf, EMIT   \* Configs: sequence of [prefill, prog]
VARIABLE c                         \* the configuration of this behaviour (chosen in Init, never changes)
Prog    == Configs[c].prog
PreFill == Configs[c].prefill

MinSize == 128
Threads == 1 .. Len(Prog)
Buckets == 20 .. 24
Shards  == {ShardOf[v] : v \in DOMAIN ShardOf}
Cap(a)      == 2 ^ (31 - a)
BucketOf(i) == IF i < 256 THEN 24 ELSE IF i < 512 THEN 23 ELSE IF i < 1024 THEN 22
               ELSE IF i < 2048 THEN 21 ELSE 20
OffOf(i)    == i - Cap(BucketOf(i))
Min(x, y)   == IF x < y THEN x ELSE y

Pre         == [n |-> PreFill]
PreBuckets  == IF PreFill = 0 THEN {} ELSE {a \in Buckets : Cap(a) <= MinSize + PreFill - 1}
PreAlloc(a) == 25 - a

NoRes == -9
None  == -2
Uninit == -1
NullDeref == -3

VARIABLES
    inited,    \* shards OnceCell is set
    once,      \* thread running the OnceCell initialiser, 0 = nobody
    wlock,     \* [Shards -> writer thread or 0]
    shard,     \* [Shards -> set of biased refs inserted]
    next, bucket, heap, nalloc, mutex,          \* the arena, as in Arena.tla
    pc, ip, loc,
    obs,       \* layer A: completed calls that returned an id  [k, v, id]
    obsBad, maxLen, maxId,
    hist

vars == <<c, inited, once, wlock, shard, next, bucket, heap, nalloc, mutex, pc, ip, loc, obs, obsBad, maxLen, maxId, hist>>
View == <<c, inited, once, wlock, shard, next, bucket, heap, nalloc, mutex, pc, ip, loc, obs, obsBad, maxLen, maxId>>

Loc0 == [op |-> "", v |-> 0, s |-> 0, p |-> 0, ref |-> 0]

Init ==
    /\ c \in DOMAIN Configs
    /\ inited = (PreFill > 0)
    /\ once = 0
    /\ wlock = [s \in Shards |-> 0]
    /\ shard = [s \in Shards |-> {}]
    /\ next = MinSize + PreFill
    /\ bucket = [a \in Buckets |-> IF a \in PreBuckets THEN PreAlloc(a) ELSE 0]
    /\ heap = <<>>
    /\ nalloc = Cardinality(PreBuckets)
    /\ mutex = 0
    /\ pc = [t \in Threads |-> IF Len(Prog[t]) = 0 THEN "done" ELSE "op.call"]
    /\ ip = [t \in Threads |-> 1]
    /\ loc = [t \in Threads |-> Loc0]
    /\ obs = {} /\ obsBad = {} /\ maxLen = 0 /\ maxId = -1
    /\ hist = <<>>

ReadAt(p, a, b) ==
    IF p = 0 THEN NullDeref
    ELSE IF p = PreAlloc(a) /\ a \in PreBuckets /\ Cap(a) + b < MinSize + PreFill
         THEN 1000 + (Cap(a) + b - MinSize)
    ELSE IF <<p, b>> \in DOMAIN heap THEN heap[<<p, b>>]
    ELSE Uninit
Read(r) == ReadAt(bucket[BucketOf(r)], BucketOf(r), OffOf(r))

(* RawTable::get(hash, |other| q == other.borrow()): entries are ids, compared through the arena *)
Find(s, v) == {r \in shard[s] : Read(r) = v}

Log(t, res) == hist' = Append(hist, <<t, pc[t], res>>) /\ c' = c    \* (every step logs; c never changes)
Goto(t, l)  == pc' = [pc EXCEPT ![t] = l] /\ UNCHANGED ip
Advance(t) ==
    /\ ip' = [ip EXCEPT ![t] = @ + 1]
    /\ pc' = [pc EXCEPT ![t] = IF ip[t] + 1 <= Len(Prog[t]) THEN "op.call" ELSE "done"]
    /\ loc' = [loc EXCEPT ![t] = Loc0]

ArenaVars == <<next, bucket, heap, nalloc, mutex>>
SetVars   == <<inited, once, wlock, shard>>
HistVars  == <<obs, obsBad, maxLen, maxId>>

(* a call returns id for value v: the layer-A observation *)
Observe(t, v, ref) ==
    LET o == [k |-> <<t, ip[t]>>, v |-> v, id |-> ref - MinSize] IN
    /\ obs' = obs \cup {o}
    /\ obsBad' = IF BijectiveWith(Pre, obs, o) THEN obsBad ELSE obsBad \cup {"Bijective"}
    /\ maxId' = IF o.id > maxId THEN o.id ELSE maxId
    /\ UNCHANGED maxLen

LastRefOf(x) ==
    IF x = 0 THEN (IF PreFill = 0 THEN 0 ELSE MinSize + PreFill - 1)
    ELSE LET mine == {y \in obs : y.k[1] = x} IN
         IF mine = {} THEN 0
         ELSE (CHOOSE y \in mine : \A z \in mine : z.k[2] <= y.k[2]).id + MinSize

Call(t) ==
    /\ pc[t] = "op.call"
    /\ LET o == Prog[t][ip[t]] IN
       CASE o.op \in {"intern", "getint"} ->
              /\ Goto(t, "intern.shards_init")
              /\ loc' = [loc EXCEPT ![t].op = o.op, ![t].v = o.x]
              /\ Log(t, NoRes)
         [] o.op = "lookup" ->
              LET r == LastRefOf(o.x) IN
              IF r = 0 THEN Advance(t) /\ Log(t, None)
              ELSE /\ Goto(t, "arena.get_load_bucket")
                   /\ loc' = [loc EXCEPT ![t].op = "lookup", ![t].ref = r]
                   /\ Log(t, NoRes)
         [] o.op = "len" ->
              /\ Goto(t, "arena.len_load")
              /\ loc' = [loc EXCEPT ![t].op = "len"]
              /\ Log(t, NoRes)
    /\ UNCHANGED <<ArenaVars, SetVars, HistVars>>

AfterShards(t) == IF loc[t].op = "intern" THEN "shard.try_write" ELSE "shard.get_read_lock"

(* shards(): OnceCell::get_or_init *)
ShardsInit(t) ==
    /\ pc[t] = "intern.shards_init"
    /\ \/ /\ inited
          /\ Goto(t, AfterShards(t)) /\ UNCHANGED once
       \/ /\ ~inited /\ once = 0                        \* blocks while another thread initialises
          /\ once' = t
          /\ Goto(t, "intern.shards_init_enter")
    /\ Log(t, NoRes)
    /\ UNCHANGED <<inited, wlock, shard, ArenaVars, loc, HistVars>>

ShardsInitEnter(t) ==                                  \* ShardedSet::default(); then arena.is_empty()
    /\ pc[t] = "intern.shards_init_enter"
    /\ Goto(t, "arena.len_load")
    /\ Log(t, NoRes)
    /\ UNCHANGED <<SetVars, ArenaVars, loc, HistVars>>

LenLoad(t) ==
    /\ pc[t] = "arena.len_load"
    /\ IF once = t
       THEN /\ Goto(t, "intern.shards_init_done")      \* is_empty() inside the initialiser (fresh table: empty)
            /\ Log(t, NoRes)
            /\ UNCHANGED <<loc, HistVars>>
       ELSE LET n == next - MinSize IN
            /\ obsBad' = IF n >= maxLen /\ IdBelowLen(maxId, n) THEN obsBad ELSE obsBad \cup {"Len"}
            /\ maxLen' = IF n > maxLen THEN n ELSE maxLen
            /\ Log(t, n)
            /\ Advance(t)
            /\ UNCHANGED <<obs, maxId>>
    /\ UNCHANGED <<SetVars, ArenaVars>>

ShardsInitDone(t) ==
    /\ pc[t] = "intern.shards_init_done"
    /\ inited' = TRUE /\ once' = 0
    /\ Goto(t, AfterShards(t))
    /\ Log(t, NoRes)
    /\ UNCHANGED <<wlock, shard, ArenaVars, loc, HistVars>>

S(t) == ShardOf[loc[t].v]

TryWrite(t) ==                                         \* shard.try_write()
    /\ pc[t] = "shard.try_write"
    /\ IF wlock[S(t)] = 0
       THEN wlock' = [wlock EXCEPT ![S(t)] = t] /\ Goto(t, "shard.lookup_w")
       ELSE UNCHANGED wlock /\ Goto(t, "shard.read_lock")
    /\ Log(t, NoRes)
    /\ UNCHANGED <<inited, once, shard, ArenaVars, loc, HistVars>>

ReadLockLookup(t) ==                                   \* shard.read().get(..): blocks while a writer holds
    /\ pc[t] = "shard.read_lock"
    /\ wlock[S(t)] = 0
    /\ LET f == Find(S(t), loc[t].v) IN
       IF f # {} THEN LET r == CHOOSE x \in f : TRUE IN
                      Observe(t, loc[t].v, r) /\ Log(t, r - MinSize) /\ Advance(t)
       ELSE Goto(t, "shard.write_lock") /\ Log(t, NoRes) /\ UNCHANGED <<loc, HistVars>>
    /\ UNCHANGED <<SetVars, ArenaVars>>

WriteLock(t) ==                                        \* shard.write(): blocking
    /\ pc[t] = "shard.write_lock"
    /\ wlock[S(t)] = 0
    /\ wlock' = [wlock EXCEPT ![S(t)] = t]
    /\ Goto(t, "shard.lookup_w")
    /\ Log(t, NoRes)
    /\ UNCHANGED <<inited, once, shard, ArenaVars, loc, HistVars>>

LookupW(t) ==                                          \* the check under the write lock
    /\ pc[t] = "shard.lookup_w"
    /\ LET f == Find(S(t), loc[t].v) IN
       IF f # {} THEN Goto(t, "shard.unlock_found") /\ loc' = [loc EXCEPT ![t].ref = CHOOSE x \in f : TRUE]
       ELSE Goto(t, "arena.fetch_add") /\ UNCHANGED loc
    /\ Log(t, NoRes)
    /\ UNCHANGED <<SetVars, ArenaVars, HistVars>>

UnlockFound(t) ==
    /\ pc[t] = "shard.unlock_found"
    /\ wlock' = [wlock EXCEPT ![S(t)] = 0]
    /\ Observe(t, loc[t].v, loc[t].ref)
    /\ Log(t, loc[t].ref - MinSize)
    /\ Advance(t)
    /\ UNCHANGED <<inited, once, shard, ArenaVars>>

(* ---- the nested AtomicArena::add, exactly as in Arena.tla ---- *)
FetchAdd(t) ==
    /\ pc[t] = "arena.fetch_add"
    /\ loc' = [loc EXCEPT ![t].s = next]
    /\ next' = next + 1
    /\ Goto(t, "arena.load_bucket") /\ Log(t, NoRes)
    /\ UNCHANGED <<bucket, heap, nalloc, mutex, SetVars, HistVars>>

LoadBucket(t) ==
    /\ pc[t] = "arena.load_bucket"
    /\ LET p == bucket[BucketOf(loc[t].s)] IN
       IF p # 0 THEN Goto(t, "arena.write_slot") /\ loc' = [loc EXCEPT ![t].p = p]
       ELSE Goto(t, "arena.lock_mutex") /\ UNCHANGED loc
    /\ Log(t, NoRes)
    /\ UNCHANGED <<ArenaVars, SetVars, HistVars>>

LockMutex(t) ==
    /\ pc[t] = "arena.lock_mutex" /\ mutex = 0
    /\ mutex' = t
    /\ Goto(t, "arena.recheck_bucket") /\ Log(t, NoRes)
    /\ UNCHANGED <<next, bucket, heap, nalloc, loc, SetVars, HistVars>>

RecheckBucket(t) ==
    /\ pc[t] = "arena.recheck_bucket"
    /\ LET p == bucket[BucketOf(loc[t].s)] IN
       IF p # 0 THEN Goto(t, "arena.unlock") /\ loc' = [loc EXCEPT ![t].p = p]
       ELSE Goto(t, "arena.alloc_store") /\ UNCHANGED loc
    /\ Log(t, NoRes)
    /\ UNCHANGED <<ArenaVars, SetVars, HistVars>>

AllocStore(t) ==
    /\ pc[t] = "arena.alloc_store"
    /\ nalloc' = nalloc + 1
    /\ bucket' = [bucket EXCEPT ![BucketOf(loc[t].s)] = nalloc + 1]
    /\ loc' = [loc EXCEPT ![t].p = nalloc + 1]
    /\ Goto(t, "arena.unlock") /\ Log(t, NoRes)
    /\ UNCHANGED <<next, heap, mutex, SetVars, HistVars>>

Unlock(t) ==
    /\ pc[t] = "arena.unlock"
    /\ mutex' = 0
    /\ Goto(t, "arena.write_slot") /\ Log(t, NoRes)
    /\ UNCHANGED <<next, bucket, heap, nalloc, loc, SetVars, HistVars>>

WriteSlot(t) ==                                        \* arena.add returns Ref(s)
    /\ pc[t] = "arena.write_slot"
    /\ heap' = (<<loc[t].p, OffOf(loc[t].s)>> :> loc[t].v) @@ heap
    /\ loc' = [loc EXCEPT ![t].ref = loc[t].s]
    /\ Goto(t, "intern.shard_insert") /\ Log(t, NoRes)
    /\ UNCHANGED <<next, bucket, nalloc, mutex, SetVars, HistVars>>

ShardInsert(t) ==                                      \* insert_lock.insert(AsInterned(id))
    /\ pc[t] = "intern.shard_insert"
    /\ shard' = [shard EXCEPT ![S(t)] = @ \cup {loc[t].ref}]
    /\ Goto(t, "intern.unlock") /\ Log(t, NoRes)
    /\ UNCHANGED <<inited, once, wlock, ArenaVars, loc, HistVars>>

InternUnlock(t) ==                                     \* InsertLock dropped; intern returns id
    /\ pc[t] = "intern.unlock"
    /\ wlock' = [wlock EXCEPT ![S(t)] = 0]
    /\ Observe(t, loc[t].v, loc[t].ref)
    /\ Log(t, loc[t].ref - MinSize)
    /\ Advance(t)
    /\ UNCHANGED <<inited, once, shard, ArenaVars>>

GetReadLock(t) ==                                      \* get_interned: shard.read().get(..)
    /\ pc[t] = "shard.get_read_lock"
    /\ wlock[S(t)] = 0
    /\ LET f == Find(S(t), loc[t].v) IN
       IF f # {} THEN LET r == CHOOSE x \in f : TRUE IN Observe(t, loc[t].v, r) /\ Log(t, r - MinSize)
       ELSE Log(t, None) /\ UNCHANGED HistVars
    /\ Advance(t)
    /\ UNCHANGED <<SetVars, ArenaVars>>

Lookup(t) ==                                           \* InternTable::get -> arena.get
    /\ pc[t] = "arena.get_load_bucket"
    /\ LET w == Read(loc[t].ref) IN
       /\ obsBad' = IF LookupOK(Pre, obs, loc[t].ref - MinSize, w) THEN obsBad ELSE obsBad \cup {"Lookup"}
       /\ Log(t, w)
    /\ Advance(t)
    /\ UNCHANGED <<SetVars, ArenaVars, obs, maxLen, maxId>>

Step(t) == \/ Call(t) \/ ShardsInit(t) \/ ShardsInitEnter(t) \/ LenLoad(t) \/ ShardsInitDone(t)
           \/ TryWrite(t) \/ ReadLockLookup(t) \/ WriteLock(t) \/ LookupW(t) \/ UnlockFound(t)
           \/ FetchAdd(t) \/ LoadBucket(t) \/ LockMutex(t) \/ RecheckBucket(t) \/ AllocStore(t)
           \/ Unlock(t) \/ WriteSlot(t) \/ ShardInsert(t) \/ InternUnlock(t) \/ GetReadLock(t) \/ Lookup(t)

AllDone == \A t \in Threads : pc[t] = "done"
Next == (\E t \in Threads : Step(t)) \/ (AllDone /\ UNCHANGED vars)   \* stutter at the end: TLC checks deadlock
Spec == Init /\ [][Next]_vars

Emit == (EMIT = 1 /\ hist' # hist) => PrintT(<<"REPLAY", ToJson([c |-> c, h |-> hist'])>>)

---------------------------------------------------------------------------
InvBijective == Bijective(Pre, obs)
InvObs       == obsBad = {}
InvLookup    == \A x \in obs : Read(x.id + MinSize) = x.v        \* lookup(id(v)) = v at any later time
InvDense     == AllDone => DenseOK(Pre, obs, next - MinSize)
InvOneSlot   == \A v \in DOMAIN ShardOf : Cardinality(Find(ShardOf[v], v)) <= 1   \* at most one slot per value
InvLocks     == /\ \A s \in Shards : wlock[s] # 0 =>
                      pc[wlock[s]] \in {"shard.lookup_w", "shard.unlock_found", "arena.fetch_add", "arena.load_bucket",
                                        "arena.lock_mutex", "arena.recheck_bucket", "arena.alloc_store", "arena.unlock",
                                        "arena.write_slot", "intern.shard_insert", "intern.unlock"}
                /\ AllDone => (\A s \in Shards : wlock[s] = 0) /\ mutex = 0 /\ once = 0
=============================================================================
