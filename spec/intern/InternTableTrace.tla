------------------------- MODULE InternTableTrace -------------------------
(***************************************************************************)
(* C05 - trace specification: evaluates the layer-A predicates of          *)
(* InternProp on histories recorded from a real InternTable.  Same walk as *)
(* ArenaTrace: one state per record, failed predicates print               *)
(* <<"VIOL", {run, pred, rec}>>.                                           *)
(*                                                                         *)
(* Records:  reset  run, pre = [n], pre_ok                                 *)
(*           call   t, op, x                                               *)
(*           ret    t, op, x, res    intern/getint: x = value, res = id    *)
(*                                   (getint: -2 = None); lookup: x = id,  *)
(*                                   res = value read; len: res = length   *)
(*           quiesce len             all threads joined                    *)
(*           (then thread 0 interns every value again: ordinary call/ret)  *)
(*           final  reads = <<id, value>>*, len                            *)
(*           dropped panic | crash                                         *)
(***************************************************************************)
EXTENDS Naturals, Integers, Sequences, FiniteSets, TLC, Json, IOUtils, InternProp

Rec == ndJsonDeserialize(IOEnv.TRACE)

VARIABLES l, run, pre, obs, pend, maxLen, maxId
vars == <<l, run, pre, obs, pend, maxLen, maxId>>

TIds == 0 .. 8
NoPend == [t \in TIds |-> [obs |-> {}, floor |-> 0, maxId |-> -1]]

Init ==
    /\ l = 1 /\ run = -1 /\ pre = [n |-> 0]
    /\ obs = {} /\ pend = NoPend /\ maxLen = 0 /\ maxId = -1

Chk(ok, name) ==
    IF ok THEN TRUE
    ELSE PrintT(<<"VIOL", ToJson([run |-> run, pred |-> name, rec |-> l])>>)

Range(s) == {s[i] : i \in DOMAIN s}
Panic == -4

Next ==
    /\ l <= Len(Rec)
    /\ l' = l + 1
    /\ LET r == Rec[l] IN
       CASE r.e = "reset" ->
              /\ run' = r.run /\ pre' = [n |-> r.pre.n]
              /\ obs' = {} /\ pend' = NoPend /\ maxLen' = 0 /\ maxId' = r.pre.n - 1
              /\ PrintT(<<"RUN", r.run>>)
              /\ LET rn == r.run IN
                 IF r.pre_ok = 1 THEN TRUE
                 ELSE PrintT(<<"VIOL", ToJson([run |-> rn, pred |-> "Dense", rec |-> l])>>)
         [] r.e = "call" ->
              /\ pend' = [pend EXCEPT ![r.t] = [obs |-> obs, floor |-> maxLen, maxId |-> maxId]]
              /\ UNCHANGED <<run, pre, obs, maxLen, maxId>>
         [] r.e = "ret" /\ r.res = Panic ->
              /\ Chk(FALSE, "NoPanic")
              /\ UNCHANGED <<run, pre, obs, pend, maxLen, maxId>>
         [] r.e = "ret" /\ r.res # Panic /\ r.op \in {"intern", "getint"} /\ r.res >= 0 ->
              LET o == [k |-> l, v |-> r.x, id |-> r.res] IN
              /\ Chk(BijectiveWith(pre, obs, o), "Bijective")
              /\ obs' = obs \cup {o}
              /\ maxId' = IF r.res > maxId THEN r.res ELSE maxId
              /\ UNCHANGED <<run, pre, pend, maxLen>>
         [] r.e = "ret" /\ r.res # Panic /\ r.op = "lookup" ->
              /\ Chk(LookupOK(pre, pend[r.t].obs, r.x, r.res), "Lookup")
              /\ UNCHANGED <<run, pre, obs, pend, maxLen, maxId>>
         [] r.e = "ret" /\ r.res # Panic /\ r.op = "len" ->
              /\ Chk(r.res >= pend[r.t].floor /\ IdBelowLen(pend[r.t].maxId, r.res), "DenseLen")
              /\ maxLen' = IF r.res > maxLen THEN r.res ELSE maxLen
              /\ UNCHANGED <<run, pre, obs, pend, maxId>>
         [] r.e = "quiesce" ->
              /\ Chk(DenseOK(pre, obs, r.len), "Dense")
              /\ UNCHANGED <<run, pre, obs, pend, maxLen, maxId>>
         [] r.e = "final" ->
              /\ \A rd \in Range(r.reads) : Chk(LookupOK(pre, obs, rd[1], rd[2]), "Lookup")
              /\ Chk(DenseOK(pre, obs, r.len), "Dense")          \* interning again changed nothing
              /\ UNCHANGED <<run, pre, obs, pend, maxLen, maxId>>
         [] r.e = "dropped" ->
              /\ Chk(r.panic = 0, "NoPanic")
              /\ UNCHANGED <<run, pre, obs, pend, maxLen, maxId>>
         [] r.e = "crash" ->
              /\ Chk(FALSE, "NoCrash")
              /\ UNCHANGED <<run, pre, obs, pend, maxLen, maxId>>
         [] OTHER ->                      \* getint = None, lookupnone, stuck: not judged
              UNCHANGED <<run, pre, obs, pend, maxLen, maxId>>

Spec == Init /\ [][Next]_vars
=============================================================================
