CONSTANT EMIT = 0
CONSTANT Configs <- MCConfigs
SPECIFICATION Spec
VIEW View
ACTION_CONSTRAINT Emit
INVARIANT InvDistinct
INVARIANT InvReadBack
INVARIANT InvObs
INVARIANT InvQuiescent
INVARIANT InvLenBound
INVARIANT InvDrop
INVARIANT InvMutex
