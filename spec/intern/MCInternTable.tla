--------------------------- MODULE MCInternTable ---------------------------
(* A stand-alone instance of InternTable.tla (the engine generates modules of
   this shape in its work directory, one per program). *)
EXTENDS InternTable
MCConfigs == << [prefill |-> 0,
                 prog |-> << << [op |-> "intern", x |-> 1], [op |-> "lookup", x |-> 2] >>,
                             << [op |-> "intern", x |-> 1], [op |-> "intern", x |-> 2] >> >>],
               [prefill |-> 127,
                 prog |-> << << [op |-> "intern", x |-> 1], [op |-> "getint", x |-> 3] >>,
                             << [op |-> "intern", x |-> 3], [op |-> "len", x |-> 0] >> >>] >>
MCShardOf == (1 :> 1) @@ (2 :> 1) @@ (3 :> 2)
=============================================================================
