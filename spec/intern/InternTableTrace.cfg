SPECIFICATION Spec
