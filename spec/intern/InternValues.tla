---------------------------- MODULE InternValues ----------------------------
(***************************************************************************)
(* C05 - value classes for strings / byte strings / paths.  A case is a    *)
(* kind, three representation classes and how the second value relates to  *)
(* the first; TLC enumerates all cases, the engine concretises each class  *)
(* with seeded bytes (SmallBytes stores <= 22 bytes inline):               *)
(*   empty      ""                     small     1..21 bytes               *)
(*   boundary   exactly 22 bytes       boundary1 23 bytes (first on heap)  *)
(*   large      24..400 bytes          nonutf8   bytes that are not UTF-8  *)
(*   multibyte  non-ASCII UTF-8 text   dotdot    path with `..` / `.`      *)
(*   slashes    path with `//`, trailing `/`, leading `/`                  *)
(* rel: how value 2 is derived from value 1                                *)
(*   indep | equal | prefix (v2 = v1 + one byte) | lastbyte (differs in    *)
(*   the last byte) | crossing (v2 = v1 extended across the inline limit)  *)
(***************************************************************************)
EXTENDS Naturals, Sequences, TLC, Json

CONSTANT EMIT

ClassesOf(kind) ==
    CASE kind = "string" -> {"empty", "small", "boundary", "boundary1", "large", "multibyte"}
      [] kind = "bytes"  -> {"empty", "small", "boundary", "boundary1", "large", "nonutf8"}
      [] kind = "path"   -> {"small", "large", "dotdot", "slashes", "nonutf8"}
Rels == {"indep", "equal", "prefix", "lastbyte", "crossing"}

VARIABLES case
Init == /\ \E kind \in {"string", "bytes", "path"} :
             \E c1 \in ClassesOf(kind), c2 \in ClassesOf(kind), c3 \in ClassesOf(kind), rel \in Rels :
                 case = [kind |-> kind, c1 |-> c1, c2 |-> c2, c3 |-> c3, rel |-> rel]
        /\ (EMIT = 1) => PrintT(<<"CASE", ToJson(case)>>)
Next == UNCHANGED case
Spec == Init /\ [][Next]_case
=============================================================================
