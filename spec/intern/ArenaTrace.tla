---------------------------- MODULE ArenaTrace ----------------------------
(***************************************************************************)
(* C06 - trace specification: evaluates the layer-A predicates of          *)
(* ArenaProp on histories recorded from the real AtomicArena (baton        *)
(* scheduler or free-running threads).  One state per record; every failed *)
(* predicate prints a line  <<"VIOL", {run, pred, rec}>>  and the walk     *)
(* goes on, so one TLC run judges a whole batch of runs.  The engine       *)
(* checks that all records were consumed (distinct states = records + 1).  *)
(*                                                                         *)
(* Records (ndjson, env TRACE), in the order things happened:              *)
(*   reset   run, pre = [n, first], pre_consecutive                        *)
(*   call    t, op, x          an operation starts                         *)
(*   ret     t, op, x, res     it returns (add: res = reference;           *)
(*                             get: x = reference, res = element read or a *)
(*                             negative non-value; len: res = length)      *)
(*   quiesce len               all threads joined                          *)
(*   final   reads = <<ref, res>>*   reads by the main thread afterwards   *)
(*   drop    early, cnt = <<v, count>>*, preOnce, other, panic             *)
(*   crash                     the process died inside this run            *)
(* "A read at any later time" = a get whose call record follows the add's  *)
(* ret record.  Only what the property states is judged; labels reached    *)
(* and allocation counts are compared by the engine as drift.              *)
(***************************************************************************)
EXTENDS Naturals, Integers, Sequences, FiniteSets, TLC, Json, IOUtils, ArenaProp

Rec == ndJsonDeserialize(IOEnv.TRACE)

VARIABLES l, run, pre, adds, pend, maxLen
vars == <<l, run, pre, adds, pend, maxLen>>

TIds == 0 .. 8
NoPend == [t \in TIds |-> [adds |-> {}, floor |-> 0]]

Init ==
    /\ l = 1 /\ run = -1 /\ pre = [n |-> 0, first |-> 128]
    /\ adds = {} /\ pend = NoPend /\ maxLen = 0

Chk(ok, name) ==
    IF ok THEN TRUE      \* (IF, not \/ : TLC evaluates both disjuncts of an action)
    ELSE PrintT(<<"VIOL", ToJson([run |-> run, pred |-> name, rec |-> l])>>)

Range(s) == {s[i] : i \in DOMAIN s}

Panic == -4

Next ==
    /\ l <= Len(Rec)
    /\ l' = l + 1
    /\ LET r == Rec[l] IN
       CASE r.e = "reset" ->
              /\ run' = r.run /\ pre' = [n |-> r.pre.n, first |-> r.pre.first]
              /\ adds' = {} /\ pend' = NoPend /\ maxLen' = 0
              /\ PrintT(<<"RUN", r.run>>)
              /\ LET rn == r.run IN
                 IF r.pre_consecutive = 1 THEN TRUE
                 ELSE PrintT(<<"VIOL", ToJson([run |-> rn, pred |-> "DistinctRefs", rec |-> l])>>)
         [] r.e = "call" ->
              /\ pend' = [pend EXCEPT ![r.t] = [adds |-> adds, floor |-> maxLen]]
              /\ UNCHANGED <<run, pre, adds, maxLen>>
         [] r.e = "ret" /\ r.res = Panic ->
              /\ Chk(FALSE, "NoPanic")
              /\ UNCHANGED <<run, pre, adds, pend, maxLen>>
         [] r.e = "ret" /\ r.res # Panic /\ r.op = "add" ->
              /\ Chk(FreshRef(pre, adds, r.res), "DistinctRefs")
              /\ adds' = adds \cup {[k |-> l, ref |-> r.res, v |-> r.x]}
              /\ UNCHANGED <<run, pre, pend, maxLen>>
         [] r.e = "ret" /\ r.res # Panic /\ r.op = "get" ->
              /\ Chk(ReadBackOK(pre, pend[r.t].adds, r.x, r.res), "ReadBack")
              /\ UNCHANGED <<run, pre, adds, pend, maxLen>>
         [] r.e = "ret" /\ r.res # Panic /\ r.op = "len" ->
              /\ Chk(LenMonotoneOK(pend[r.t].floor, r.res), "LenMonotone")
              /\ maxLen' = IF r.res > maxLen THEN r.res ELSE maxLen
              /\ UNCHANGED <<run, pre, adds, pend>>
         [] r.e = "ret" /\ r.res # Panic /\ r.op = "getnone" ->
              UNCHANGED <<run, pre, adds, pend, maxLen>>
         [] r.e = "quiesce" ->
              /\ Chk(QuiescentLenOK(pre, adds, r.len), "QuiescentLen")
              /\ UNCHANGED <<run, pre, adds, pend, maxLen>>
         [] r.e = "final" ->
              /\ \A rd \in Range(r.reads) : Chk(ReadBackOK(pre, adds, rd[1], rd[2]), "ReadBack")
              /\ UNCHANGED <<run, pre, adds, pend, maxLen>>
         [] r.e = "drop" ->
              /\ Chk(NoEarlyDrop(r.early), "NoEarlyDrop")
              /\ LET cnt(v) == LET m == {p \in Range(r.cnt) : p[1] = v} IN
                               IF m = {} THEN 0 ELSE (CHOOSE p \in m : TRUE)[2]
                 IN Chk(DropOK(pre, adds, cnt, r.preOnce, r.other), "DropOnce")
              /\ Chk(r.panic = 0, "NoPanic")
              /\ UNCHANGED <<run, pre, adds, pend, maxLen>>
         [] r.e = "crash" ->
              /\ Chk(FALSE, "NoCrash")
              /\ UNCHANGED <<run, pre, adds, pend, maxLen>>
         [] OTHER ->                      \* stuck / informational records: not judged
              UNCHANGED <<run, pre, adds, pend, maxLen>>

Spec == Init /\ [][Next]_vars
=============================================================================
