SPECIFICATION Spec
