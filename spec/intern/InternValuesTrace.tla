------------------------- MODULE InternValuesTrace -------------------------
(***************************************************************************)
(* C05 - trace specification for the sequential parts: judges records of   *)
(* real serde round trips (`serdes`) and of interned strings / bytes /     *)
(* paths (`strings`) with the predicates of InternValuesProp.              *)
(*   serdes  run, fmt, doc, toks (json only), back, ok, equal              *)
(*   strings run, kind, vals, back, pairs = <<i, j, sameId, cmp>>*,        *)
(*           again = <<sameId>>*, rt = <<fmt, ok, values>>*                *)
(*           (kind "path": a value is its sequence of components and cmp   *)
(*            is not judged - the property speaks of strings)              *)
(***************************************************************************)
EXTENDS Naturals, Integers, Sequences, FiniteSets, TLC, Json, IOUtils, InternValuesProp

Rec == ndJsonDeserialize(IOEnv.TRACE)
VARIABLES l
Chk(ok, name, run) ==
    IF ok THEN TRUE
    ELSE PrintT(<<"VIOL", ToJson([run |-> run, pred |-> name, rec |-> l])>>)
Range(s) == {s[i] : i \in DOMAIN s}

Init == l = 1
Next ==
    /\ l <= Len(Rec)
    /\ l' = l + 1
    /\ LET r == Rec[l] IN
       CASE r.e = "serdes" ->
              /\ (r.fmt = "json") => PrintT(<<"RUN", r.run>>)
              /\ Chk(RoundTripOK(r.doc, r.back, r.ok = 1) /\ r.equal = 1, "RoundTrip", r.run)
              /\ Chk(BackRefsInRange(r.toks), "BackRefsInRange", r.run)
         [] r.e = "strings" ->
              /\ PrintT(<<"RUN", r.run>>)
              /\ \A i \in DOMAIN r.vals : Chk(ReadsBack(r.vals[i], r.back[i]), "ReadsBack", r.run)
              /\ \A p \in Range(r.pairs) :
                    /\ Chk(SameIdIffEqual(p[3] = 1, r.vals[p[1]], r.vals[p[2]]), "SameIdIffEqual", r.run)
                    /\ r.kind # "path" => Chk(OrdLikeText(p[4], r.vals[p[1]], r.vals[p[2]]), "OrdLikeText", r.run)
              /\ \A a \in Range(r.again) : Chk(a = 1, "StableId", r.run)
              /\ \A t \in Range(r.rt) : Chk(RoundTripOK(r.vals \o r.vals, t[3], t[2] = 1), "RoundTrip", r.run)
         [] r.e = "crash" ->
              Chk(FALSE, "NoCrash", r.run)
         [] OTHER -> TRUE
Spec == Init /\ [][Next]_l
=============================================================================
