---------------------------- MODULE InternSerdes ----------------------------
(***************************************************************************)
(* C05 (second half) - serde with intern sharing (`InternSerdes`,          *)
(* `WithIntern`, relay-crates/intern/src/intern.rs).                       *)
(*                                                                         *)
(* World: ids 1..N of a custom interned node type; the value of id k is    *)
(*   [name, kids]: an interned string (a second id type with its own       *)
(*   back-reference table) and a sequence of ids < k - interned values     *)
(*   that contain ids, the recursive case named in the code.               *)
(* Document: a sequence of ids.                                            *)
(*                                                                         *)
(* Serializer (thread-local SerState per id type): an id already in        *)
(*   ref_to_index is written as Id(index); otherwise Value(..) is written  *)
(*   - which serializes the ids inside the value first - and only then     *)
(*   index = next_index++ is taken and ref_to_index.entry(r).or_insert.    *)
(* Deserializer (index_to_ref per id type): Value(w) deserializes w        *)
(*   (pushing the nested ids first), interns it and pushes the id;         *)
(*   Id(i) is index_to_ref[i].                                             *)
(* The two parties only share the token stream.                            *)
(*                                                                         *)
(* States = inputs: TLC enumerates every world/document within the bounds, *)
(* checks the invariants on the model and prints each case with the token  *)
(* stream layer B predicts.                                                *)
(***************************************************************************)
EXTENDS Naturals, Integers, Sequences, FiniteSets, TLC, Json, InternValuesProp

CONSTANTS MaxIds,     \* <= 3
          MaxKids,    \* ids inside one value
          MaxDoc,     \* top-level ids
          MaxNodes,   \* bound on tokens V + I (tree nodes)
          Names,      \* interned strings used as names
          EMIT

SeqsUpTo(S, n) == UNION {[1 .. m -> S] : m \in 0 .. n}

Worlds == UNION { { [n |-> N, name |-> nm, kids |-> ks] :
                      nm \in [1 .. N -> Names],
                      ks \in { f \in [1 .. N -> SeqsUpTo(1 .. N, MaxKids)] :
                                 \A k \in 1 .. N : \A i \in DOMAIN f[k] : f[k][i] < k } }
                  : N \in 1 .. MaxIds }

St0 == [next |-> 0, r2i |-> <<>>, snext |-> 0, s2i |-> <<>>]

SerName(nm, st) ==
    IF nm \in DOMAIN st.s2i
    THEN [toks |-> <<[t |-> "SI", x |-> st.s2i[nm]]>>, st |-> st]
    ELSE [toks |-> <<[t |-> "SV", x |-> nm]>>,
          st |-> [st EXCEPT !.snext = @ + 1, !.s2i = (nm :> st.snext) @@ @]]

RECURSIVE SerId(_, _, _), SerSeq(_, _, _)
SerId(w, id, st) ==
    IF id \in DOMAIN st.r2i
    THEN [toks |-> <<[t |-> "I", x |-> st.r2i[id]]>>, st |-> st]
    ELSE LET nm  == SerName(w.name[id], st)
             ks  == SerSeq(w, w.kids[id], nm.st)
             idx == ks.st.next                              \* taken AFTER the value was written
             r2  == IF id \in DOMAIN ks.st.r2i THEN ks.st.r2i ELSE (id :> idx) @@ ks.st.r2i
         IN [toks |-> <<[t |-> "V", x |-> id]>> \o nm.toks \o ks.toks \o <<[t |-> "E", x |-> id]>>,
             st   |-> [ks.st EXCEPT !.next = idx + 1, !.r2i = r2]]
SerSeq(w, s, st) ==
    IF s = <<>> THEN [toks |-> <<>>, st |-> st]
    ELSE LET h == SerId(w, Head(s), st)
             r == SerSeq(w, Tail(s), h.st)
         IN [toks |-> h.toks \o r.toks, st |-> r.st]

Serialize(w, doc) == SerSeq(w, doc, St0).toks

(* ---- the other party: sees only the tokens ---- *)
D0 == [i2r |-> <<>>, s2r |-> <<>>, ok |-> TRUE]

(* intern(value): the id whose value equals it; 0 = a value that was never interned before *)
InternOf(w, tag, nm, kids) ==
    IF tag \in 1 .. w.n /\ w.name[tag] = nm /\ w.kids[tag] = kids THEN tag ELSE 0

RECURSIVE DeOne(_, _, _, _), DeKids(_, _, _, _, _)
(* returns [id, pos, d] : value read at toks[pos], next position, deserializer state *)
DeOne(w, toks, pos, d) ==
    LET tk == toks[pos] IN
    IF tk.t = "I"
    THEN IF tk.x < Len(d.i2r) THEN [id |-> d.i2r[tk.x + 1], pos |-> pos + 1, d |-> d]
         ELSE [id |-> 0, pos |-> pos + 1, d |-> [d EXCEPT !.ok = FALSE]]          \* index out of range: panic
    ELSE \* "V": name, kids..., "E"
         LET nt  == toks[pos + 1]
             nmr == IF nt.t = "SV" THEN [nm |-> nt.x, d |-> [d EXCEPT !.s2r = Append(@, nt.x)]]
                    ELSE IF nt.x < Len(d.s2r) THEN [nm |-> d.s2r[nt.x + 1], d |-> d]
                    ELSE [nm |-> 0, d |-> [d EXCEPT !.ok = FALSE]]
             ks  == DeKids(w, toks, pos + 2, nmr.d, <<>>)
             id  == InternOf(w, tk.x, nmr.nm, ks.kids)
         IN [id |-> id, pos |-> ks.pos + 1, d |-> [ks.d EXCEPT !.i2r = Append(@, id)]]
DeKids(w, toks, pos, d, acc) ==
    IF toks[pos].t = "E" THEN [kids |-> acc, pos |-> pos, d |-> d]
    ELSE LET o == DeOne(w, toks, pos, d) IN DeKids(w, toks, o.pos, o.d, Append(acc, o.id))

RECURSIVE DeDoc(_, _, _, _, _)
DeDoc(w, toks, pos, d, acc) ==
    IF pos > Len(toks) THEN [doc |-> acc, ok |-> d.ok]
    ELSE LET o == DeOne(w, toks, pos, d) IN DeDoc(w, toks, o.pos, o.d, Append(acc, o.id))

Deserialize(w, toks) == DeDoc(w, toks, 1, D0, <<>>)

NodeCount(toks) == Cardinality({i \in DOMAIN toks : toks[i].t \in {"V", "I"}})

VARIABLES world, doc, toks, back
vars == <<world, doc, toks, back>>

Init ==
    /\ world \in Worlds
    /\ doc \in SeqsUpTo(1 .. world.n, MaxDoc) \ {<<>>}
    /\ toks = Serialize(world, doc)
    /\ NodeCount(toks) <= MaxNodes
    /\ back = Deserialize(world, toks)
    /\ (EMIT = 1) => PrintT(<<"CASE", ToJson([world |-> world, doc |-> doc, toks |-> toks])>>)

Next == UNCHANGED vars
Spec == Init /\ [][Next]_vars

(* B => A *)
InvRoundTrip == RoundTripOK(doc, back.doc, back.ok)
InvBackRefs  == BackRefsInRange(toks)
(* sharing really happens: the second occurrence of an id is a back reference *)
InvShared    == \A i, j \in DOMAIN toks : (i < j /\ toks[i].t = "V" /\ toks[j].t = "V") => toks[i].x # toks[j].x
=============================================================================
