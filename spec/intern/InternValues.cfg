CONSTANT EMIT = 0
SPECIFICATION Spec
