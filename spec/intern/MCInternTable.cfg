CONSTANT EMIT = 0
CONSTANT Configs <- MCConfigs
CONSTANT ShardOf <- MCShardOf
SPECIFICATION Spec
VIEW View
ACTION_CONSTRAINT Emit
INVARIANT InvBijective
INVARIANT InvObs
INVARIANT InvLookup
INVARIANT InvDense
INVARIANT InvOneSlot
INVARIANT InvLocks
