----------------------------- MODULE ArenaProp -----------------------------
(***************************************************************************)
(* Layer A for C06, written from the property text only.                   *)
(*                                                                         *)
(*  "Concurrent additions to the atomic arena never return the same        *)
(*   reference twice, every reference returned by an addition reads back   *)
(*   the added element from any thread at any later time, and the length   *)
(*   never decreases and equals the number of completed additions once     *)
(*   they all finish.  Dropping the arena drops every added element        *)
(*   exactly once."                                                        *)
(*                                                                         *)
(* The predicates are pure operators over a history:                       *)
(*   pre  = [n |-> number of elements added sequentially before the        *)
(*           concurrent phase, first |-> the reference of the first one]   *)
(*          (their references are first .. first+n-1 and the element       *)
(*          added with reference r has value PreVal(pre, r))               *)
(*   adds = set of [k, ref, v]: one record per COMPLETED addition of the   *)
(*          concurrent phase (k = call identity, ref = reference returned, *)
(*          v = the element; the generated programs add pairwise distinct  *)
(*          elements, so v identifies the element)                         *)
(* They are used unchanged by Arena.tla (model, on its history variables)  *)
(* and by ArenaTrace.tla (on histories recorded from the real crate).      *)
(***************************************************************************)
EXTENDS Naturals, Integers, FiniteSets

PreRefs(pre) == IF pre.n = 0 THEN {} ELSE pre.first .. (pre.first + pre.n - 1)
PreVal(pre, r) == 1000 + (r - pre.first)

(* never return the same reference twice *)
DistinctRefs(pre, adds) ==
    /\ \A x, y \in adds : x.k # y.k => x.ref # y.ref
    /\ \A x \in adds : x.ref \notin PreRefs(pre)

(* incremental form: a newly returned reference r is fresh *)
FreshRef(pre, adds, r) ==
    /\ r \notin PreRefs(pre)
    /\ \A x \in adds : x.ref # r

(* a read of reference r that started after the additions in `adds` (and the
   sequential ones) completed yielded `res` (an element value, or a non-value) *)
ReadBackOK(pre, adds, r, res) ==
    /\ \A x \in adds : x.ref = r => res = x.v
    /\ r \in PreRefs(pre) => res = PreVal(pre, r)

(* a length observation n that started after an observation of prevMax finished *)
LenMonotoneOK(prevMax, n) == n >= prevMax

(* all additions have finished and the length is n *)
QuiescentLenOK(pre, adds, n) == n = pre.n + Cardinality(adds)

(* after Drop: cnt(v) = how many times element v was dropped (over the whole life
   of the arena), preOnce = number of sequentially added elements dropped exactly
   once, other = drops of things that were never added *)
DropOK(pre, adds, cnt(_), preOnce, other) ==
    /\ \A x \in adds : cnt(x.v) = 1
    /\ preOnce = pre.n
    /\ other = 0

(* before Drop nothing has been dropped *)
NoEarlyDrop(early) == early = 0
=============================================================================
