-------------------------- MODULE InternValuesProp --------------------------
(***************************************************************************)
(* Layer A for C05 (second half), from the property text:                  *)
(*  "... interning two values yields the same id exactly when the values   *)
(*   are equal, looking up an id returns a value equal to the one          *)
(*   interned ... Interned strings order like their text, and data         *)
(*   serialized with intern sharing deserializes to equal values."         *)
(* Texts are sequences of byte values; a path value is the sequence of its *)
(* components (each a sequence of bytes).                                  *)
(***************************************************************************)
EXTENDS Naturals, Integers, Sequences, FiniteSets

(* data serialized with intern sharing deserializes to equal values *)
RoundTripOK(doc, back, ok) == ok /\ back = doc

(* every back reference names a value that the reader has completely read by then.
   Token stream: V(x) .. E(x) brackets a value written in full (ids inside it in
   between), I(i) is a back reference; SV / SI the same for the (unnested) strings. *)
BackRefsInRange(toks) ==
    \A p \in DOMAIN toks :
        /\ toks[p].t = "I"  => toks[p].x < Cardinality({q \in 1 .. (p - 1) : toks[q].t = "E"})
        /\ toks[p].t = "SI" => toks[p].x < Cardinality({q \in 1 .. (p - 1) : toks[q].t = "SV"})

RECURSIVE LexCmp(_, _)
LexCmp(a, b) ==
    IF a = <<>> THEN (IF b = <<>> THEN 0 ELSE -1)
    ELSE IF b = <<>> THEN 1
    ELSE IF Head(a) < Head(b) THEN -1
    ELSE IF Head(a) > Head(b) THEN 1
    ELSE LexCmp(Tail(a), Tail(b))

(* same id exactly when the values are equal *)
SameIdIffEqual(sameId, a, b) == sameId <=> (a = b)
(* looking up an id returns a value equal to the one interned *)
ReadsBack(a, back) == back = a
(* interned strings order like their text (str / [u8] order = bytewise lexicographic) *)
OrdLikeText(cmpIds, a, b) == cmpIds = LexCmp(a, b)
=============================================================================
