SPECIFICATION Spec
