CONSTANT MaxIds = 3
CONSTANT MaxKids = 2
CONSTANT MaxDoc = 3
CONSTANT MaxNodes = 6
CONSTANT Names = {1, 2}
CONSTANT EMIT = 0
SPECIFICATION Spec
INVARIANT InvRoundTrip
INVARIANT InvBackRefs
INVARIANT InvShared
