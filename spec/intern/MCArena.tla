------------------------------ MODULE MCArena ------------------------------
(* A stand-alone instance of Arena.tla (the engine generates modules of this
   shape in its work directory, one per program/prefill pair). *)
EXTENDS Arena
MCConfigs == << [prefill |-> 128,
                 prog |-> << << [op |-> "add", x |-> 101], [op |-> "get", x |-> 2] >>,
                             << [op |-> "add", x |-> 201], [op |-> "len", x |-> 0] >> >>],
               [prefill |-> 0,
                 prog |-> << << [op |-> "add", x |-> 101] >>, << [op |-> "add", x |-> 201] >> >>] >>
=============================================================================
