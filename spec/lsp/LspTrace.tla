------------------------------ MODULE LspTrace ------------------------------
(* impl -> spec for C21: one record per replayed history, observed by harness/h_lsp on the real
   LspState: [id, steps: << [op, same, live_kind, fresh_kind] >>] where `same` is the byte equality
   of the serialized answer of the live server and of a freshly started server given the same disk
   and the same open buffers.  Layer A: every answer is the same. *)
EXTENDS Naturals, Sequences, TLC, Json, IOUtils

Rec == ndJsonDeserialize(IOEnv.TRACE)
VARIABLE l
Init == l = 1

Observed(s) == s.op \in {"validate", "request"}
FirstBad(steps) ==
  LET bad == {i \in DOMAIN steps : Observed(steps[i]) /\ ~steps[i].same}
  IN IF bad = {} THEN 0 ELSE CHOOSE i \in bad : \A j \in bad : i <= j

Next == /\ l <= Len(Rec)
        /\ l' = l + 1
        /\ LET r == Rec[l]
               b == FirstBad(r.steps)
           IN IF b = 0 THEN TRUE
              ELSE PrintT(<<"BAD", ToJson([id |-> r.id, at |-> b, live |-> r.steps[b].live_kind, fresh |-> r.steps[b].fresh_kind])>>)
Spec == Init /\ [][Next]_l
AllConsumed == TLCGet("stats").diameter = Len(Rec) + 1
=============================================================================
