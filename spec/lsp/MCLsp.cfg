SPECIFICATION Spec
CONSTANTS
  MaxOps = 3
  Emit = FALSE
VIEW View
INVARIANT InputsAgree
ACTION_CONSTRAINT EmitReplay
