-------------------------------- MODULE Lsp --------------------------------
(* C21 - language-server answers match a fresh server on the same effective contents.

   State
     disk    : [File -> Content \cup {None}]      what is on disk
     buf     : [File -> Content \cup {None}]      open editor buffers (None = not open)
     tracked : [File -> Content \cup {None}]      what the live server read from disk (initial read +
                                                  debounced watcher batches)
     cache   : [Observation -> the effective contents the answer was last computed FROM, or None]
               (the answers sit in the memoization cache of the live server; two histories are the
               same state only if every cached answer was computed from the same inputs — so a first
               didOpen AFTER the first validation is a different state from a didOpen before it, and
               both orders are explored and replayed)
   Effective content of a file: its buffer if open, else the disk content.
   Layer A: the answer of every Validate / Request equals the answer of a freshly started server that
     reads the same disk and is sent didOpen for the same buffers:  Answer(kind, f, Eff).
   Layer B: the live server answers from  EffLive = buffer if open else TRACKED content, recomputing
     exactly when pico says an input changed; with every disk edit delivered as a watcher batch,
     tracked = disk and B implies A.  A lost or mis-categorised batch (C20) or a stale memoized
     answer (C01) is what breaks the implication; on the real code the implication is checked
     differentially (live LspState vs fresh LspState) for every generated history. *)
EXTENDS Naturals, Sequences, FiniteSets, TLC, Json

None == "none"
Files == {"src/a.ts", "src/b.ts"}
Contents == {"ok1", "ok2", "err", "syn"}     \* two valid variants, a validation error, a syntax error
Kinds == {"tokens", "format", "hover", "definition"}

CONSTANTS MaxOps, Emit

Obs == {<<"validate", "*">>} \cup (Kinds \X Files)

VARIABLES disk, buf, tracked, cache, hist
vars == <<disk, buf, tracked, cache, hist>>
View == <<disk, buf, tracked, cache, Len(hist)>>

Init == /\ disk = [f \in Files |-> "ok1"]
        /\ buf = [f \in Files |-> None]
        /\ tracked = [f \in Files |-> "ok1"]
        /\ cache = [o \in Obs |-> None]
        /\ hist = <<>>

Eff(d, b)  == [f \in Files |-> IF b[f] # None THEN b[f] ELSE d[f]]

Guard == Len(hist) < MaxOps
Log(op) == hist' = Append(hist, op)

DidOpen(f, c) == /\ Guard /\ buf[f] = None
                 /\ buf' = [buf EXCEPT ![f] = c] /\ Log([op |-> "open", f |-> f, c |-> c])
                 /\ UNCHANGED <<disk, tracked, cache>>
DidChange(f, c) == /\ Guard /\ buf[f] # None /\ buf[f] # c
                   /\ buf' = [buf EXCEPT ![f] = c] /\ Log([op |-> "change", f |-> f, c |-> c])
                   /\ UNCHANGED <<disk, tracked, cache>>
DidClose(f) == /\ Guard /\ buf[f] # None
               /\ buf' = [buf EXCEPT ![f] = None] /\ Log([op |-> "close", f |-> f])
               /\ UNCHANGED <<disk, tracked, cache>>
\* an on-disk edit (save from another program, git checkout, ...) and the watcher batch it produces
DiskWrite(f, c) == /\ Guard /\ disk[f] # c
                   /\ disk' = [disk EXCEPT ![f] = c] /\ tracked' = [tracked EXCEPT ![f] = c]
                   /\ Log([op |-> "disk", f |-> f, c |-> c, ev |-> IF disk[f] = None THEN "create" ELSE "modify"])
                   /\ UNCHANGED <<buf, cache>>
DiskDelete(f) == /\ Guard /\ disk[f] # None
                 /\ disk' = [disk EXCEPT ![f] = None] /\ tracked' = [tracked EXCEPT ![f] = None]
                 /\ Log([op |-> "disk", f |-> f, c |-> None, ev |-> "remove"])
                 /\ UNCHANGED <<buf, cache>>
Validate == /\ Guard
            /\ cache' = [cache EXCEPT ![<<"validate", "*">>] = Eff(tracked, buf)]
            /\ Log([op |-> "validate"]) /\ UNCHANGED <<disk, buf, tracked>>
Request(k, f) == /\ Guard /\ (disk[f] # None \/ buf[f] # None)
                 /\ cache' = [cache EXCEPT ![<<k, f>>] = Eff(tracked, buf)[f]]
                 /\ Log([op |-> "request", k |-> k, f |-> f]) /\ UNCHANGED <<disk, buf, tracked>>
Gc == /\ Guard /\ Len(hist) > 0 /\ hist[Len(hist)].op # "gc"
      /\ cache' = [o \in Obs |-> None] /\ Log([op |-> "gc"]) /\ UNCHANGED <<disk, buf, tracked>>

Next == \/ \E f \in Files, c \in Contents : DidOpen(f, c) \/ DidChange(f, c) \/ DiskWrite(f, c)
        \/ \E f \in Files : DidClose(f) \/ DiskDelete(f)
        \/ Validate \/ Gc
        \/ \E k \in Kinds, f \in Files : Request(k, f)

Spec == Init /\ [][Next]_vars

\* B => A on the model: the live server's inputs equal the fresh server's inputs
InputsAgree == Eff(tracked, buf) = Eff(disk, buf)

\* only histories that end in an observation are worth replaying
EmitReplay ==
  IF Emit /\ hist'[Len(hist')].op \in {"validate", "request"}
  THEN PrintT(<<"REPLAY", ToJson([ops |-> hist'])>>) ELSE TRUE
=============================================================================
