#!/usr/bin/env python3
"""Development aid: every MCPico configuration of engines/pico.py with MaxOps cut to 3 -- catches configurations whose
node set is not closed under callees (TLC evaluation error) in seconds instead of inside a thorough run."""
import sys, pathlib
sys.path.insert(0, "/verif"); sys.path.insert(0, "/verif/lib")
import vlib
from engines import pico
work = pathlib.Path("/verif/work/smoke_pico"); work.mkdir(parents=True, exist_ok=True)
bad = 0
for name, c in pico.CONFIGS.items():
    nodes, vals, maxops, capacity, maxretain = c[:5]
    wkeys = c[5] if len(c) > 5 else ("A", "B", "S")
    cfg = work / f"MC_{name}.cfg"
    cfg.write_text(pico.cfg_text(nodes, vals, min(maxops, 3), capacity, maxretain, emit="none", shadow=pico.SHADOW_OF.get(name), wkeys=wkeys))
    try:
        r = vlib.tlc(pathlib.Path("/verif/spec/pico/MCPico.tla"), cfg, workers=2, timeout=300, metadir=work / f"meta-{name}", heap="2g")
        print(name, "ok", r.distinct, "violated" if r.violated else "")
    except Exception as e:
        bad += 1
        print(name, "ERROR", str(e)[:300])
sys.exit(1 if bad else 0)
