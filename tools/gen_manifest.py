#!/usr/bin/env python3
"""Regenerates /verif/MANIFEST.json from the table below (the single place where claims are edited)."""
import json, subprocess
from pathlib import Path

ROOT = Path(__file__).resolve().parents[1]
props = [json.loads(l)["id"] for l in (ROOT / "properties.jsonl").read_text().splitlines() if l.strip()]

MC = "model_checking"
TECH = "explicit TLA+ specification checked by TLC, bound to the code by conformance both ways (TLC-generated behaviours replayed into the real crate; recorded executions validated by TLC against the layer-A trace specification)"

CLAIMS = {
 "C01": dict(engine="pico", design="3/C01", text="TLC checks exhaustively (bounded histories over sources, singleton, tracked field, nested/dynamic memo functions, GC, retain) that the transcription of pico (PicoB) implies the from-scratch monitor (PicoA: every memoized call returns Eval on the current sources); every transition TLC generates is replayed on the real crate and compared with the model's prediction; deviating and random (TLC -simulate) histories recorded from the real crate are judged by TLC against PicoA.",
            note="Memo-function family fixed in PicoProgram.tla (interpreted by real #[memo] functions of all parameter kinds); bounds per configuration in the evidence; histories respect pico's documented contracts (no get of a removed source, MemoRef args from the same epoch)."),
 "C02": dict(engine="pico", design="3/C02", text="Same machinery as C01; the layer-A monitor allows a body to start only if it never ran, a direct input changed (different-value write/removal, tracked mutation, callee produced a different value) or a collection did not have to keep it; checked on every body start the real crate performs in all replayed and simulated histories.",
            note="As C01. Which bodies run is observed from the harness's own function bodies (no hook)."),
 "C03": dict(engine="pico", design="3/C03", text="Same machinery with LRU capacities 1-2, retain/clear_retain and lookups of MemoRefs after collections: protected results (retained or within the LRU capacity, with everything they depend on) are never re-executed and look up their original value; a panic in a collection or lookup is a violation.",
            note="Undefined behaviour is observed only as wrong values/panics of the safe API; Miri/valgrind are not run by this check (stated in DESIGN 4)."),
 "C04": dict(engine="pico", design="3/C04", text="Twin #[memo] functions with textually identical signatures in different modules are part of the model's program; the layer-A monitor requires each to return its own from-scratch value in every bounded history of calls, writes, retains and collections; all transitions replayed on the real macros.",
            note="The clause about the concrete #[memo] functions of this repository is covered through the macro's observed behaviour on identical signatures, not by enumerating them."),
 "C05": dict(engine="intern", design="3/C05", text="TLC explores every interleaving of 2-3 threads interning/looking up values at the granularity of the hook points (lazy shard init, try_write, read-lock lookup, blocking write, re-check, arena add, shard insert); every generated schedule is replayed on real OS threads under a baton scheduler against a fresh table and judged by TLC against the bijection/density/stability predicates; serde round trips and string/bytes/path classes are enumerated by TLC and executed on the real crate.",
            note="Sequentially consistent interleavings at hook-point granularity only (weak-memory reorderings and interleavings inside a step are outside the model); quick tier samples the serde/value cases."),
 "C06": dict(engine="intern", design="3/C06", text="TLC explores every interleaving of adds/gets/len across bucket boundaries at hook-point granularity (fetch_add, bucket load, mutex, re-check, alloc+store, slot write); every schedule is replayed on real threads against a fresh AtomicArena (pre-filled to a bucket boundary) and judged by TLC: distinct refs, read-back through the current bucket pointer, monotone length, drop exactly once.",
            note="As C05: sequential consistency, hook-point granularity; free-running stress runs add finer interleavings probabilistically."),
 "C20": dict(engine="watch", design="3/C20", text="TLC enumerates every history (bounded depth) of file-system edits over a small project with sibling folders sharing a name prefix, non-source and non-UTF-8 files and schema edits, with the debounced events each edit produces; the transcription of watch.rs/source_files.rs leaves the property only through named deviations; every transition is replayed on the real code (real FS edits, synthesised DebouncedEvents through the real categorisation and update_sources) and the live database's artifacts/diagnostics are compared with a fresh CompilerState; TLC judges every recorded history.",
            note="The mapping from edits to debounced notify events is an assumption table (NotifyModel); the real inotify watcher/debouncer is not run. Two unrepaired genuine defects are listed in known_findings.json (watcher terminated by a non-UTF-8 file and by schema removal)."),
 "C21": dict(engine="lsp", design="3/C21", text="TLC enumerates every bounded history of didOpen/didChange/didClose, on-disk edits (with their watcher batch), validations, garbage collections and requests (semantic tokens, formatting, hover, go-to-definition) over two files and four content classes; every history ending in an observation is replayed on a real LspState through the real notification/request handlers, and after every observation a freshly started LspState on the same disk with the same open buffers is asked the same thing; TLC requires every pair of answers to be equal.",
            note="Disk edits reach the server as the NotifyModel's debounced batch (the tokio loop, the real watcher and the debounce timer are not run); hover/definition at one fixed position; the model's own contribution is the history enumeration, the equality is differential."),
 "C07": dict(engine="isogrammar", design="3/C07", text="The iso-literal language is an explicit grammar-driven transition system in TLA+ (IsoGrammar over LL1.tla); TLC enumerates sentences under several layout schemes, every single-token mutant of the short sentences, and all token soups up to length 3 over a 14-symbol alphabet (integer beyond i64, non-ASCII identifier start, unterminated string, lone dots, end of input at every position) in 8 syntactic contexts; each text is parsed by the real parser (catch_unwind, child process for aborts) and the projection (outcome, every AST/semantic-token/diagnostic span, character boundaries) is judged by TLC against the totality, span well-formedness and token-order predicates.",
            note="Code points are class representatives; deep-nesting stack overflows are unrepaired genuine defects listed in known_findings.json; generator-vs-parser verdict differences are drift only (C07 does not demand grammar equality)."),
 "C32": dict(engine="isogrammar", design="3/C32", text="For every TLC-generated sentence (and the parser fixtures) and every character-boundary offset, the real position resolution is run and its node chain recorded together with an independent walk of all resolvable nodes; TLC checks that each chain span contains the offset and its child, that consecutive entries are child/parent, and that no resolvable descendant of the returned node contains the offset.",
            note="Two explicit readings are counted as drift, not violations: the root declaration stands for the whole literal (keyword/blank offsets resolve to it), and type annotations are atomic. The AST walk of the harness is trusted base."),
 "C28": dict(engine="swc", design="3/C28", text="TLC enumerates iso literal headers from the grammar (layout schemes with odd white space incl. BOM/CR/FF, directives with and without spaces, names that start with or contain the keywords) x file placements relative to the artifact directory x both module kinds x call shapes; the expected classification is the real parser's verdict on the same text and the expected import is path arithmetic over segment sequences (SwcPath.tla); each case runs through the real compile_iso_literal_visitor and the printed module is projected (what replaced the call, which import was added, whether every other item is unchanged); TLC judges every record.",
            note="The real parser is the reference for classification; swc_ecma_codegen printing is the equality of 'other code'; Windows separators, files inside __isograph and template literals with substitutions are outside the model."),
 "C17": dict(engine="artifactdir", design="3/C17", text="ArtifactDir.tla: disk tree, in-memory FileSystemState, per-operation apply with std::fs semantics, restarts, invalid compiles; TLC explores all 193 initial directory trees x histories of valid/invalid compiles; the invalid compiles are real: 8 classes of invalid programs (undefined field, iso parse error, undefined entrypoint, schema syntax error, duplicate field, undefined parent type, undefined variable, schema removed) run through the real compiler end to end, in batch mode and as watch-mode recompiles on a live CompilerState; the directory is snapshotted (path, bytes, inode, mtime) before and after and TLC checks it is untouched.",
            note="Invalid-program classes are fixed (8); artifact-set substitution hook lets the real compile() be driven; inode/mtime make same-bytes rewrites visible."),
 "C18": dict(engine="artifactdir", design="3/C18", text="TLC checks on the transcription of recreate_all / diff / apply_file_system_operations (every admissible operation order, arbitrary initial directory contents, sequences of compiles and restarts) that after a successful compile the directory equals the artifact set and later compiles write only changed artifacts; every generated transition is replayed through the real compile() on a temp directory and every recorded operation list and resulting tree is validated by TLC (order admissible, PostOk, WriteMinimal, and a valid compile must not fail when nobody interfered).",
            note="The empty artifact set is out of scope (the compiler always writes iso.ts and tsconfig.json); HashMap order cannot be forced, the model explores all orders and each observed order must be admissible. Two genuine defects were repaired (known_findings.json)."),
 "C19": dict(engine="artifactdir", design="3/C19", text="Same specification with faults: every admissible operation order x every operation index x four fault kinds (I/O error, kill, torn write + error, torn write + kill) x same session or new process x same or changed artifact set; TLC checks that the next successful compile restores the C18 postcondition; every case is replayed on the real code through the fault-injection hook and validated by TLC.",
            note="A process kill is simulated by stopping the operation loop and dropping the state; torn writes are modelled as a truncated file."),
 "C22": dict(engine="lspformat", design="3/C22", text="IsoFormat.tla models the formatter as a token-driven printer; TLC enumerates grammar-generated literals (headers, variable definitions, directives, descriptions incl. multi-line block strings with non-ASCII, bodies with aliases, every argument value kind, nested and empty selection sets) under layout schemes and random separators; each literal is formatted by the real on_format, re-parsed by the real parser and formatted again; TLC judges the records: output accepted, same declaration modulo positions, idempotent, and the TextEdit range replaces exactly the literal under UTF-16 conventions.",
            note="Declaration equality is over the harness's position-stripped projection of the parser's declaration (trusted). Non-BMP characters inside literals are rejected by the iso lexer and therefore not covered."),
 "C23": dict(engine="textfn", design="3/C23", text="Utf.tla / LspPos.tla define UTF-8/UTF-16 widths, the LSP position of a byte offset and the decoding of a semantic-token delta stream; TLC enumerates documents (prefixes over {a, e-acute, CJK, emoji, newline} x real literals x middle text x second literal); each is opened in a real LspState and queried for semantic tokens, formatting edits, diagnostics and definition ranges; TLC checks that every position sent designates exactly the source text and that tokens decode to increasing non-overlapping ranges covering one source token each.",
            note="Positions the server RECEIVES (cursor -> offset) are recorded as drift only (IncomingIsLayerA = FALSE): the statement speaks of positions the server sends."),
 "C29": dict(engine="gqlgrammar", design="3/C29", text="The June 2018 executable and type-system grammars are explicit LL(1) production tables in TLA+ (GqlExecGrammar, SdlGrammar over LL1.tla with a deterministic PDA that builds the expected tree); TLC derives every document up to a token bound plus seeded random derivations and single-token mutants; each is rendered with seed-chosen representatives, parsed by the real relay graphql-syntax crate, and TLC judges lexer classes, verdict, tree (incl. BlockStringValue transcribed from the specification), print/re-parse round trip and absence of panics; a fixed corpus of minimal documents per known disagreement class is judged on every run.",
            note="Lexical fidelity is per class with representatives; relay's tree has no slot for several descriptions (not compared there). 39 known disagreements with the June 2018 grammar (mostly post-2018 syntax and unprocessed string escapes) are listed in known_findings.json; 3 panics were repaired."),
 "C30": dict(engine="gqlgrammar", design="3/C30", text="Same SdlGrammar generator against crates/graphql_schema_parser: tree equality for types, fields, arguments, type annotations, default values, directives and descriptions, verdict equality on mutants within the explicitly stated supported subset (all eight TypeSystemDefinitions plus `extend type` in extension documents), judged by TLC on recorded observations; fixed corpus of known classes judged on every run.",
            note="Subset boundary is explicit in GqlTraceIso.tla and printed in the evidence; 15 known findings listed (later-edition syntax accepted, escapes not processed, integers beyond i64 rejected); 6 defects were repaired."),
 "C31": dict(engine="textfn", design="3/C31", text="Carats.tla: texts over {1-byte char, 2-byte char, newline} x every non-empty character-aligned span x outer offsets, plus random longer texts with 1-4-byte characters; the real text_with_carats runs on each and TLC checks the recorded rendering: no panic, reported row = line of the span start, carets under exactly the span's characters, one per character, on every printed line the span touches.",
            note="Spans are byte offsets that lie on character boundaries (a span cutting a character is outside the statement); the reported column is drift only."),
 "C33": dict(engine="textfn", design="3/C33", text="SignedSource.tla: contents over {ordinary chars, the `@generated ` prefix, the signing token, an older signature} with an uninterpreted injective hash; TLC enumerates contents; the real sign_file / is_valid_signature run on each and on EVERY single-character substitution of every signed file (4 replacement kinds per position); TLC checks verify-after-sign and that every edit outside the signature breaks verification.",
            note="Collision resistance of md5 is assumed. A bare token without the `@generated ` prefix is outside the statement's 'signing token' (drift only)."),
}

checks = []
for p in props:
    if p in CLAIMS:
        c = CLAIMS[p]
        checks.append({
            "property_id": p,
            "quick_cmd": f"bin/vcheck {p} --tier quick",
            "thorough_cmd": f"bin/vcheck {p} --tier thorough",
            "evidence_file": f"/verif/evidence/{p}.json",
            "replay_cmd_template": f"bin/vcheck {p} --replay {{path}}",
            "engine": c["engine"],
            "level_claimed": {"category": c.get("level", MC), "text": c["text"], "design_ref": f"DESIGN.md section {c['design']}"},
            "level_note": c["note"],
            "technique": c.get("technique", TECH),
        })

PENDING = {p: "check under construction in this session (engine being built; no claim is made until it is sound on the unchanged tree)" for p in props if p not in CLAIMS}

engines = {}
for c in checks:
    engines.setdefault(c["engine"], []).append(c["property_id"])

hooks = subprocess.run(["git", "-C", "/repo", "log", "--format=%h %s"], capture_output=True, text=True).stdout.splitlines()
hook_commits = [l.split()[0] for l in hooks if "verif hook" in l]

m = {
 "version": 1,
 "setup_cmd": "bin/setup",
 "hooks": {"guard": "--cfg isographlabs_isograph_verif",
           "enable": "harness/.cargo/config.toml passes rustflags [--cfg isographlabs_isograph_verif, --check-cfg cfg(isographlabs_isograph_verif)] to every build of the /repo crates, which the harness workspace uses as path dependencies",
           "baseline_off_cmd": "cd /repo && cargo test --workspace --no-fail-fast --offline",
           "source_commits": hook_commits, "add_only": True},
 "engines": [{"name": e, "path": f"/verif/spec/{e} + /verif/harness + /verif/engines/{e}.py", "serves_properties": ps,
              "kind_free_text": "TLA+ specification(s) + TLC + Rust conformance harness"} for e, ps in engines.items()],
 "checks": checks,
 "notes": "Model-based verification with explicit TLA+ specifications (DESIGN.md). known_findings.json lists genuine defects: `fixed` entries name the unguarded fix: commit in /repo; `known` entries are reported as KNOWN-FINDING lines.",
 "not_applicable": [{"property_id": p, "reason": r} for p, r in PENDING.items()],
}
(ROOT / "MANIFEST.json").write_text(json.dumps(m, indent=1))
print("checks:", [c["property_id"] for c in checks], "pending:", len(PENDING))
