#!/bin/sh
# usage: tools/run_tier.sh <quick|thorough> [per-check-timeout-seconds] [ids...]; runs every claimed check of MANIFEST.json once,
# prints one summary line per check (exit code, wall time). Development aid; not registered in the manifest.
tier=${1:-quick}; to=${2:-7200}; shift 2 2>/dev/null
ids="$*"
[ -z "$ids" ] && ids=$(python3 -c "import json;print(' '.join(c['property_id'] for c in json.load(open('MANIFEST.json'))['checks']))")
mkdir -p work/run_tier
for p in $ids; do
  s=$(date +%s)
  timeout $to bin/vcheck $p --tier $tier > work/run_tier/$p.$tier.log 2>&1; rc=$?
  e=$(date +%s)
  echo "$p $tier exit=$rc wall=$((e-s))s $(grep -c '^VIOLATION' work/run_tier/$p.$tier.log) violations $(grep -c '^KNOWN-FINDING' work/run_tier/$p.$tier.log) known"
  [ $rc -ne 0 ] && tail -n 15 work/run_tier/$p.$tier.log | cut -c1-300
done
