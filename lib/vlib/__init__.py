"""Driver library for the model-based verification machinery in /verif.

Everything a check does goes through here:
  * tlc()            run TLC (model checking, simulation or trace validation) under a timeout
  * cargo_build()    build a harness crate against /repo's current working tree (hooks on)
  * run_bin()        run a harness binary, feeding ndjson on stdin
  * Check            bookkeeping: work dir, evidence, violations, known findings, exit code

Exit codes of a check: 0 held / only known findings, 1 VIOLATION (line printed, replay written),
2 tool error or timeout (never reported as a violation).
"""
from __future__ import annotations

import hashlib
import json
import os
import re
import shutil
import subprocess
import sys
import time
from dataclasses import dataclass, field
from pathlib import Path

ROOT = Path(__file__).resolve().parents[2]
SPEC = ROOT / "spec"
HARNESS = ROOT / "harness"
WORK = ROOT / "work"
REPLAYS = ROOT / "replays"
EVIDENCE = ROOT / "evidence"
FINDINGS_FILE = ROOT / "known_findings.json"
REPO = Path(os.environ.get("VERIF_REPO", "/repo"))
TLA_JAR = "/opt/veriftools/tla/tla2tools.jar"
TLA_CP = f"{TLA_JAR}:/opt/veriftools/tla/CommunityModules-deps.jar"


class ToolError(Exception):
    """Raised for anything that is not a verdict: build failures, TLC parse errors, timeouts."""


def log(*a):
    print(*a, file=sys.stderr, flush=True)


# --------------------------------------------------------------------------------------------
# TLC
# --------------------------------------------------------------------------------------------

@dataclass
class TlcResult:
    rc: int
    out: str
    generated: int = 0
    distinct: int = 0
    depth: int = 0
    violated: str | None = None          # name of violated invariant / property / "deadlock" / "postcondition"
    error_trace: list = field(default_factory=list)   # list of raw state texts
    printed: list = field(default_factory=list)       # parsed PrintT(<<"TAG", json>>) tuples
    coverage: dict = field(default_factory=dict)      # action name -> (distinct, total)
    wall_s: float = 0.0
    cmd: str = ""

    @property
    def ok(self):
        return self.rc == 0 and self.violated is None


_PRINT_RE = re.compile(r'^<<"([A-Z_]+)", (.*)>>$')


def _untla(s: str):
    """Turn TLC's printed form of a string value ("..." with \\" and \\\\ escapes) into text."""
    assert s.startswith('"') and s.endswith('"'), s[:80]
    body = s[1:-1]
    out = []
    i = 0
    while i < len(body):
        c = body[i]
        if c == "\\" and i + 1 < len(body):
            n = body[i + 1]
            out.append({"n": "\n", "t": "\t", "r": "\r", "f": "\f"}.get(n, n))
            i += 2
        else:
            out.append(c)
            i += 1
    return "".join(out)


def parse_tlc_output(out: str, res: TlcResult):
    for line in out.splitlines():
        m = _PRINT_RE.match(line)
        if m:
            tag, rest = m.group(1), m.group(2)
            try:
                if rest.startswith('"'):
                    try:
                        inner = json.loads(rest)      # TLC escapes \" and \\ like JSON does (fast path)
                    except Exception:
                        inner = _untla(rest)
                    res.printed.append((tag, json.loads(inner)))
                else:
                    res.printed.append((tag, rest))
            except Exception:
                res.printed.append((tag, rest))
            continue
        m = re.match(r"^(\d+) states generated, (\d+) distinct states found", line)
        if m:
            res.generated, res.distinct = int(m.group(1)), int(m.group(2))
        m = re.match(r"^The depth of the complete state graph search is (\d+)", line)
        if m:
            res.depth = int(m.group(1))
        m = re.match(r"^Error: Invariant (\S+) is violated", line)
        if m:
            res.violated = m.group(1)
        m = re.match(r"^Error: Action property (\S+) is violated", line)
        if m:
            res.violated = m.group(1)
        if line.startswith("Error: Temporal properties were violated"):
            res.violated = res.violated or "temporal"
        if line.startswith("Error: Deadlock reached"):
            res.violated = "deadlock"
        if "Error: The postcondition" in line or "Postcondition" in line and "violated" in line:
            res.violated = "postcondition"
        m = re.match(r"^Error: Evaluating assumption", line)
        if m:
            res.violated = "assumption"
        # coverage lines:  <Next line 12, col 1 to line 14, col 30 of module X>: 12:340
        m = re.match(r"^<(\w+) line \d+, col \d+ to line \d+, col \d+ of module \w+>(?: \(.*\))?: (\d+):(\d+)", line)
        if m:
            d, t = int(m.group(2)), int(m.group(3))
            a = res.coverage.get(m.group(1), (0, 0))
            res.coverage[m.group(1)] = (a[0] + d, a[1] + t)
    # error trace states
    states = re.split(r"^State \d+: ", out, flags=re.M)
    if len(states) > 1:
        res.error_trace = [s.strip() for s in states[1:]]


def tlc(module: Path, cfg: Path | None = None, *, workers: int = 4, timeout: int = 600,
        env: dict | None = None, simulate: str | None = None, depth: int | None = None,
        coverage: bool = False, heap: str = "4g", dfs: bool = False, seed: int | None = None,
        metadir: Path | None = None, extra: list[str] | None = None, deadlock: bool = False) -> TlcResult:
    """Run TLC on `module` (a .tla path).  Never raises for a property violation; raises
    ToolError for timeouts, parse/semantic errors and evaluation errors."""
    module = Path(module)
    cfg = Path(cfg) if cfg else module.with_suffix(".cfg")
    metadir = metadir or (WORK / f"tlc-{os.getpid()}-{int(time.time()*1000)%10**9}")
    metadir.mkdir(parents=True, exist_ok=True)
    jopts = ["-XX:+UseParallelGC", f"-Xmx{heap}", "-Xss1g"]
    if dfs:
        jopts.append("-Dtlc2.tool.queue.IStateQueue=StateDeque")
    cmd = ["timeout", "-k", "10", str(timeout), "java", *jopts, "-cp", TLA_CP, "tlc2.TLC",
           "-workers", str(workers), "-metadir", str(metadir), "-cleanup", "-noGenerateSpecTE",
           "-config", str(cfg)]
    if not deadlock:
        cmd.append("-deadlock")   # -deadlock DISABLES deadlock checking
    if coverage:
        cmd += ["-coverage", "1"]
    if simulate:
        cmd += ["-simulate", simulate]
    if depth:
        cmd += ["-depth", str(depth)]
    if seed is not None:
        cmd += ["-seed", str(seed)]
    if extra:
        cmd += extra
    cmd.append(str(module.name))
    e = dict(os.environ)
    e.pop("JAVA_TOOL_OPTIONS", None)
    if env:
        e.update({k: str(v) for k, v in env.items()})
    t0 = time.time()
    p = subprocess.run(cmd, cwd=module.parent, env=e, stdout=subprocess.PIPE, stderr=subprocess.STDOUT, text=True)
    res = TlcResult(rc=p.returncode, out=p.stdout, wall_s=time.time() - t0, cmd=" ".join(cmd[3:]))
    shutil.rmtree(metadir, ignore_errors=True)
    if p.returncode in (124, 137) and not simulate:
        raise ToolError(f"TLC timed out after {timeout}s: {module.name}\n{p.stdout[-2000:]}")
    parse_tlc_output(p.stdout, res)
    if res.violated is None and p.returncode not in (0, 124, 137):
        # rc 12 = safety violation, 13 = liveness, 10 = assumption ... anything else w/o a parsed verdict is a tool error
        raise ToolError(f"TLC failed rc={p.returncode} on {module.name}:\n{p.stdout[-4000:]}")
    return res


def sany(module: Path):
    p = subprocess.run(["java", "-cp", TLA_CP, "tla2sany.SANY", module.name], cwd=module.parent,
                       stdout=subprocess.PIPE, stderr=subprocess.STDOUT, text=True)
    if p.returncode != 0 or "Semantic errors" in p.stdout or "***Parse Error***" in p.stdout or "Fatal errors" in p.stdout:
        raise ToolError(f"SANY rejected {module}:\n{p.stdout[-3000:]}")


# --------------------------------------------------------------------------------------------
# Harness (cargo)
# --------------------------------------------------------------------------------------------

def cargo_env():
    e = dict(os.environ)
    e["CARGO_NET_OFFLINE"] = "true"
    e.pop("RUSTFLAGS", None)   # config.toml's rustflags (hook guard) must win
    return e


def cargo_build(crate: str, *, release: bool = False, timeout: int = 3000, bins: list[str] | None = None) -> Path:
    """Build harness crate `crate` (always against /repo's working tree: path deps). Returns bin dir."""
    lock = HARNESS / "Cargo.lock"
    if not lock.exists():
        shutil.copy(REPO / "Cargo.lock", lock)
    cmd = ["cargo", "build", "--offline", "-q", "-p", crate]
    if release:
        cmd.append("--release")
    t0 = time.time()
    env = cargo_env()
    tdir = HARNESS / "target"
    if os.environ.get("VERIF_TARGET_DIR"):      # development only: private target dir to avoid lock contention
        tdir = Path(os.environ["VERIF_TARGET_DIR"])
        env["CARGO_TARGET_DIR"] = str(tdir)
    p = subprocess.run(cmd, cwd=HARNESS, env=env, stdout=subprocess.PIPE, stderr=subprocess.STDOUT,
                       text=True, timeout=timeout)
    if p.returncode != 0:
        raise ToolError(f"cargo build -p {crate} failed:\n{p.stdout[-6000:]}")
    log(f"[build] {crate} {time.time()-t0:.1f}s")
    return tdir / ("release" if release else "debug")


def run_bin(binpath: Path, args: list[str] | None = None, *, input: str | None = None,
            timeout: int = 600, env: dict | None = None, cwd: Path | None = None, check: bool = True):
    e = dict(os.environ)
    e.setdefault("RUST_BACKTRACE", "0")
    if env:
        e.update({k: str(v) for k, v in env.items()})
    try:
        p = subprocess.run([str(binpath), *(args or [])], input=input, stdout=subprocess.PIPE,
                           stderr=subprocess.PIPE, text=True, timeout=timeout, env=e, cwd=cwd)
    except subprocess.TimeoutExpired:
        raise ToolError(f"{binpath.name} timed out after {timeout}s")
    if check and p.returncode != 0:
        raise ToolError(f"{binpath.name} rc={p.returncode}\nstderr:\n{p.stderr[-4000:]}")
    return p


# --------------------------------------------------------------------------------------------
# Known findings
# --------------------------------------------------------------------------------------------

def load_findings():
    if not FINDINGS_FILE.exists():
        return []
    return json.loads(FINDINGS_FILE.read_text()).get("findings", [])


def finding_for(prop: str, signature: str):
    """Return the *known* (unrepaired) finding whose signature matches, else None.
    `fixed` entries never suppress anything."""
    for f in load_findings():
        if f.get("property") == prop and f.get("status") == "known" and f.get("signature") == signature:
            return f
    return None


# --------------------------------------------------------------------------------------------
# Check bookkeeping
# --------------------------------------------------------------------------------------------

class Check:
    def __init__(self, prop: str, tier: str, seed: int, level: str = "model_checking"):
        self.prop, self.tier, self.seed, self.level = prop, tier, seed, level
        self.t0 = time.time()
        self.work = WORK / f"{prop}-{tier}-{os.getpid()}"
        if self.work.exists():
            shutil.rmtree(self.work)
        self.work.mkdir(parents=True)
        REPLAYS.mkdir(exist_ok=True)
        EVIDENCE.mkdir(exist_ok=True)
        self.cov: dict = {"states": 0, "transitions": 0, "traces_validated_against_impl": 0, "samples": [],
                          "evaluations": 0, "distinct_nontrivial": 0, "rule": "", "exhaustive": False,
                          "tlc_runs": [], "drift": [], "known_findings": []}
        self.assumptions: list[str] = []
        self.new_violations = 0
        self.known_hits: dict[str, dict] = {}
        self._seen_sigs: set[str] = set()

    # -- accounting -------------------------------------------------------------------------
    def add_tlc(self, name: str, r: TlcResult, *, count_states=True):
        if count_states:
            self.cov["states"] += r.distinct
            self.cov["transitions"] += r.generated
        self.cov["tlc_runs"].append({"name": name, "cmd": r.cmd, "generated": r.generated, "distinct": r.distinct,
                                     "depth": r.depth, "wall_s": round(r.wall_s, 1), "violated": r.violated,
                                     "coverage": {k: list(v) for k, v in sorted(r.coverage.items())}})

    def sample(self, obj, limit=4):
        if len(self.cov["samples"]) < limit:
            self.cov["samples"].append(obj)

    def drift(self, what):
        if len(self.cov["drift"]) < 20:
            self.cov["drift"].append(what)

    def require_coverage(self, r: TlcResult, actions: list[str]):
        """Non-vacuity: every named action must have been taken at least once."""
        missing = [a for a in actions if r.coverage.get(a, (0, 0))[1] == 0]
        if missing:
            raise ToolError(f"vacuous model run: actions never taken: {missing}")

    # -- verdicts ---------------------------------------------------------------------------
    def violation(self, signature: str, what: str, replay: dict):
        """Record a layer-A violation observed on the real code.  Known findings are reported
        as KNOWN-FINDING; anything else becomes a VIOLATION line (once per signature)."""
        if signature in self._seen_sigs:
            return
        self._seen_sigs.add(signature)
        f = finding_for(self.prop, signature)
        if f is not None:
            self.known_hits[signature] = f
            print(f"KNOWN-FINDING: property={self.prop} {f.get('what', what)}", flush=True)
            self.cov["known_findings"].append({"signature": signature, "what": f.get("what", what)})
            return
        self.new_violations += 1
        h = hashlib.sha1(signature.encode()).hexdigest()[:10]
        path = REPLAYS / f"{self.prop}-{h}.json"
        replay = dict(replay)
        replay.setdefault("property", self.prop)
        replay["signature"] = signature
        replay["what"] = what
        path.write_text(json.dumps(replay, indent=1))
        print(f"VIOLATION property={self.prop} replay={path}", flush=True)
        log(f"  what: {what}\n  signature: {signature}")

    def finish(self) -> int:
        wall = time.time() - self.t0
        cov = self.cov
        if not cov["samples"]:
            cov["samples"] = ["(no sample recorded)"]
        ev = {"property_id": self.prop, "tier": self.tier, "seed": self.seed, "level": self.level,
              "coverage": cov, "assumptions": self.assumptions, "wall_s": round(wall, 2),
              "violations": self.new_violations}
        (EVIDENCE / f"{self.prop}.json").write_text(json.dumps(ev, indent=1, sort_keys=True))
        shutil.rmtree(self.work, ignore_errors=True)
        log(f"[{self.prop}] tier={self.tier} seed={self.seed} states={cov['states']} transitions={cov['transitions']} "
            f"impl-traces={cov['traces_validated_against_impl']} violations={self.new_violations} "
            f"known={len(self.known_hits)} drift={len(cov['drift'])} wall={wall:.1f}s")
        return 1 if self.new_violations else 0


def chunks(seq, n):
    for i in range(0, len(seq), n):
        yield seq[i:i + n]


def write_ndjson(path: Path, rows):
    with open(path, "w") as f:
        for r in rows:
            f.write(json.dumps(r, separators=(",", ":")))
            f.write("\n")
