//! C31 harness: drive the real public `common_lang_types::text_with_carats` and project what it did.
//!
//! stdin : ndjson cases  {"text":[code points], "s":u32, "e":u32, "outer":{"t":"none"}|{"t":"some","k":u32,"kend":u32}, ...}
//!         (`s`,`e` = inner span, byte offsets relative to the outer span start, as the compiler passes them)
//! stdout: the same record plus
//!         "panicked": bool, "out_empty": bool, "out": [[code points] per '\n'-separated output line],
//!         "row": {"t":"none"} | {"t":"some","row":n,"col":n}
//! No judgement is made here: every predicate lives in spec/textfn/Carats.tla.
use std::io::{BufRead, Write};
use std::panic::{AssertUnwindSafe, catch_unwind};

use common_lang_types::{Span, text_with_carats};
use serde_json::{Value, json};

fn main() {
    std::panic::set_hook(Box::new(|_| {}));
    let stdin = std::io::stdin();
    let stdout = std::io::stdout();
    let mut w = std::io::BufWriter::new(stdout.lock());
    for line in stdin.lock().lines() {
        let line = line.unwrap();
        if line.trim().is_empty() {
            continue;
        }
        let mut rec: Value = serde_json::from_str(&line).expect("bad case json");
        let text: String = rec["text"]
            .as_array()
            .unwrap()
            .iter()
            .map(|c| char::from_u32(c.as_u64().unwrap() as u32).unwrap())
            .collect();
        let s = rec["s"].as_u64().unwrap() as u32;
        let e = rec["e"].as_u64().unwrap() as u32;
        let outer = match rec["outer"]["t"].as_str().unwrap() {
            "none" => None,
            _ => Some((
                rec["outer"]["k"].as_u64().unwrap() as u32,
                rec["outer"]["kend"].as_u64().unwrap() as u32,
            )),
        };
        let res = catch_unwind(AssertUnwindSafe(|| {
            // Span has public fields; build it literally so that no debug assertion of the
            // constructor can interfere with what is being observed.
            let outer_span = outer.map(|(k, kend)| Span { start: k, end: kend });
            let (out, rc) = text_with_carats(&text, outer_span, Span { start: s, end: e }, false);
            (out, rc.map(|(r, c)| (r.0.get(), c.0.get())))
        }));
        let obj = rec.as_object_mut().unwrap();
        match res {
            Ok((out, rc)) => {
                obj.insert("panicked".into(), json!(false));
                obj.insert("out_empty".into(), json!(out.is_empty()));
                let lines: Vec<Vec<u32>> = if out.is_empty() {
                    vec![]
                } else {
                    out.split('\n').map(|l| l.chars().map(|c| c as u32).collect()).collect()
                };
                obj.insert("out".into(), json!(lines));
                obj.insert(
                    "row".into(),
                    match rc {
                        None => json!({"t":"none"}),
                        Some((r, c)) => json!({"t":"some","row":r,"col":c}),
                    },
                );
            }
            Err(_) => {
                obj.insert("panicked".into(), json!(true));
                obj.insert("out_empty".into(), json!(true));
                obj.insert("out".into(), json!([]));
                obj.insert("row".into(), json!({"t":"none"}));
            }
        }
        serde_json::to_writer(&mut w, &rec).unwrap();
        w.write_all(b"\n").unwrap();
    }
    w.flush().unwrap();
}
