//! C23 / C22 harness: drive the real language-server request handlers of `isograph_lsp` on one open
//! document per case and project what the server answers, next to the ground truth it describes
//! (byte spans of the extraction, of the parser's semantic tokens, of diagnostic / definition locations).
//!
//! usage : textfn_lsp <project dir>     (a tiny isograph project prepared by the driver:
//!                                        isograph.config.json, schema.graphql, src/doc.tsx)
//! stdin : ndjson cases {"doc":[code points], "p2o":[[line,ch16],...], "goto":[{"line","ch","parent","name"}], ...}
//! stdout: the case plus
//!   "extractions": [{"start","end"}]                        byte span of every iso literal text (extract_iso_literals_from_file_content)
//!   "parse": [{"t":"ok","tokens":[[rel start, rel end, lsp type],...](,"decl": Debug text of the declaration when "want_decl")} | {"t":"err"}]   per extraction, the parser's tokens
//!   "sem":  {"t":"ok","data":[[deltaLine,deltaStart,length,type],...]} | none | err | panic       (on_semantic_token_full_request)
//!   "fmt":  {"t":"ok","edits":[{"sl","sc","el","ec","text":[code points]}]} | none | err | panic   (on_format)
//!   "diags": [{"bs","be","in_doc":bool,"lsp":{"t":"some","sl","sc","el","ec"}|{"t":"none"}}]      (validate_entire_schema + iso_diagnostics_to_params)
//!   "p2o":  [{"line","ch","res":{"t":"some","start","off"}|none|panic}]     (get_iso_literal_extraction_from_text_position_params)
//!   "goto": [{"line","ch","res":{"t":"some","in_doc":bool,"sl","sc","el","ec"}|none|err|panic,
//!             "truth":{"t":"some","bs","be","in_doc":bool}|none}]            (on_goto_definition / selectable_definition_location)
//!   "hover_range": "none"|"some"|"err"|"panic" for the first p2o position     (on_hover; the server never sends a hover range)
//! Everything is observation; all predicates are in spec/textfn/LspPos*.tla / IsoFormat*.tla.
use std::collections::BTreeSet;
use std::io::{BufRead, Write};
use std::panic::{AssertUnwindSafe, catch_unwind};
use std::path::PathBuf;
use std::str::FromStr;

use common_lang_types::{CurrentWorkingDirectory, EmbeddedLocation, RelativePathToSourceFile};
use graphql_network_protocol::GraphQLAndJavascriptProfile;
use intern::string_key::{Intern, Lookup};
use isograph_compiler::CompilerState;
use isograph_config::create_config;
use isograph_lsp::verif_exports::{
    LineChar, LspState, get_iso_literal_extraction_from_text_position_params, on_did_open_text_document,
    on_format, on_goto_definition, on_hover, on_semantic_token_full_request, verif_iso_diagnostics_to_params,
};
use isograph_schema::{
    extract_iso_literals_from_file_content, process_iso_literal_extraction, selectable_definition_location,
    validate_entire_schema,
};
use lsp_types::{
    DidOpenTextDocumentParams, DocumentFormattingParams, FormattingOptions, GotoDefinitionParams,
    GotoDefinitionResponse, HoverParams, PartialResultParams, Position, Range, SemanticTokensParams,
    SemanticTokensResult, TextDocumentIdentifier, TextDocumentItem, TextDocumentPositionParams, Uri,
    WorkDoneProgressParams,
};
use pico::Database;
use serde_json::{Value, json};

type P = GraphQLAndJavascriptProfile;

fn range_json(r: &Range) -> Value {
    json!({"sl": r.start.line, "sc": r.start.character, "el": r.end.line, "ec": r.end.character})
}

fn tagged(t: &str) -> Value {
    json!({ "t": t })
}

fn loc_bytes(l: &EmbeddedLocation) -> (u32, u32) {
    let base = l.text_source.span.map(|s| s.start).unwrap_or(0);
    (base + l.span.start, base + l.span.end)
}

fn main() {
    std::panic::set_hook(Box::new(|_| {}));
    let proj = std::fs::canonicalize(PathBuf::from(std::env::args().nth(1).expect("project dir"))).unwrap();
    std::env::set_current_dir(&proj).unwrap();
    let cwd: CurrentWorkingDirectory = proj.to_str().unwrap().intern().into();
    let config = create_config(&proj.join("isograph.config.json"), cwd);
    let state = match CompilerState::<P>::new(config, cwd) {
        Ok(s) => s,
        Err(e) => panic!("cannot create compiler state: {e}"),
    };
    let (tx, _rx) = crossbeam::channel::unbounded();
    let mut lsp = LspState::new(state, &tx);
    let uri = Uri::from_str(&format!("file://{}/src/doc.tsx", proj.to_str().unwrap())).unwrap();
    let rel: RelativePathToSourceFile = "src/doc.tsx".intern().into();
    let ident = || TextDocumentIdentifier { uri: uri.clone() };

    let stdin = std::io::stdin();
    let stdout = std::io::stdout();
    let mut w = std::io::BufWriter::new(stdout.lock());
    let mut n = 0u32;
    for line in stdin.lock().lines() {
        let line = line.unwrap();
        if line.trim().is_empty() {
            continue;
        }
        let mut rec: Value = serde_json::from_str(&line).expect("bad case json");
        let text: String = rec["doc"]
            .as_array()
            .unwrap()
            .iter()
            .map(|c| char::from_u32(c.as_u64().unwrap() as u32).unwrap())
            .collect();

        on_did_open_text_document(
            &mut lsp,
            DidOpenTextDocumentParams {
                text_document: TextDocumentItem {
                    uri: uri.clone(),
                    language_id: "typescriptreact".to_string(),
                    version: 1,
                    text: text.clone(),
                },
            },
        )
        .expect("did open");
        n += 1;
        if n % 256 == 0 {
            lsp.compiler_state.db.run_garbage_collection();
        }
        let db = &lsp.compiler_state.db;

        // ground truth: extractions and the parser's tokens
        let extractions = extract_iso_literals_from_file_content(db, rel).to_owned();
        let mut ex_json = vec![];
        let mut parse_json = vec![];
        for ex in extractions.iter() {
            ex_json.push(json!({"start": ex.iso_literal_start_index,
                                "end": ex.iso_literal_start_index + ex.iso_literal_text.len()}));
            match catch_unwind(AssertUnwindSafe(|| process_iso_literal_extraction(db, ex, rel))) {
                Ok(Ok((result, _))) => {
                    let toks: Vec<Value> = result
                        .semantic_tokens()
                        .iter()
                        .map(|t| json!([t.location.span.start, t.location.span.end, t.item.lsp_semantic_token.0]))
                        .collect();
                    let mut pj = json!({"t":"ok","tokens":toks});
                    if rec.get("want_decl").and_then(|v| v.as_bool()).unwrap_or(false) {
                        // position-carrying Debug rendering of the parsed declaration; the driver turns it into a
                        // tree and strips every position (C22: "same declaration, ignoring positions")
                        pj["decl"] = json!(format!("{:?}", result));
                    }
                    parse_json.push(pj);
                }
                Ok(Err(_)) => parse_json.push(tagged("err")),
                Err(_) => parse_json.push(tagged("panic")),
            }
        }

        // semantic tokens
        let sem = match catch_unwind(AssertUnwindSafe(|| {
            on_semantic_token_full_request(
                &lsp,
                SemanticTokensParams {
                    text_document: ident(),
                    work_done_progress_params: WorkDoneProgressParams::default(),
                    partial_result_params: PartialResultParams::default(),
                },
            )
        })) {
            Err(_) => tagged("panic"),
            Ok(Err(_)) => tagged("err"),
            Ok(Ok(None)) => tagged("none"),
            Ok(Ok(Some(SemanticTokensResult::Tokens(t)))) => {
                let data: Vec<Value> = t
                    .data
                    .iter()
                    .map(|x| json!([x.delta_line, x.delta_start, x.length, x.token_type]))
                    .collect();
                json!({"t":"ok","data":data})
            }
            Ok(Ok(Some(_))) => tagged("err"),
        };

        // formatting
        let fmt = match catch_unwind(AssertUnwindSafe(|| {
            on_format(
                &lsp,
                DocumentFormattingParams {
                    text_document: ident(),
                    options: FormattingOptions { tab_size: 2, insert_spaces: true, ..Default::default() },
                    work_done_progress_params: WorkDoneProgressParams::default(),
                },
            )
        })) {
            Err(_) => tagged("panic"),
            Ok(Err(_)) => tagged("err"),
            Ok(Ok(None)) => tagged("none"),
            Ok(Ok(Some(edits))) => {
                let e: Vec<Value> = edits
                    .iter()
                    .map(|e| {
                        let mut r = range_json(&e.range);
                        r["text"] = json!(e.new_text.chars().map(|c| c as u32).collect::<Vec<u32>>());
                        r
                    })
                    .collect();
                json!({"t":"ok","edits":e})
            }
        };

        // diagnostics
        let mut diags = vec![];
        if rec.get("want_diags").and_then(|v| v.as_bool()).unwrap_or(true) {
            let ds = match catch_unwind(AssertUnwindSafe(|| validate_entire_schema(db).clone().err().unwrap_or_default())) {
                Ok(d) => d,
                Err(_) => vec![],
            };
            for d in ds.iter() {
                let Some(loc) = d.location().and_then(|l| l.as_embedded_location()) else { continue };
                let (bs, be) = loc_bytes(&loc);
                let in_doc = loc.text_source.relative_path_to_source_file == rel;
                let lspd = match catch_unwind(AssertUnwindSafe(|| {
                    verif_iso_diagnostics_to_params(db, std::slice::from_ref(d), BTreeSet::new())
                })) {
                    Ok((params, _)) => match params.first().and_then(|p| p.diagnostics.first()) {
                        Some(x) => {
                            let mut r = range_json(&x.range);
                            r["t"] = json!("some");
                            r
                        }
                        None => tagged("none"),
                    },
                    Err(_) => tagged("panic"),
                };
                diags.push(json!({"bs": bs, "be": be, "in_doc": in_doc, "lsp": lspd, "msg": d.0.message.chars().filter(|c| c.is_ascii()).take(80).collect::<String>()}));
            }
        }

        // incoming positions -> offset in the literal
        let mut p2o = vec![];
        let mut hover_range = "none";
        if let Some(ps) = rec.get("p2o").and_then(|v| v.as_array()) {
            for (i, p) in ps.iter().enumerate() {
                let line = p[0].as_u64().unwrap() as u32;
                let ch = p[1].as_u64().unwrap() as u32;
                let res = match catch_unwind(AssertUnwindSafe(|| {
                    get_iso_literal_extraction_from_text_position_params(db, uri.clone(), LineChar { line, character: ch })
                        .to_owned()
                })) {
                    Err(_) => tagged("panic"),
                    Ok(None) => tagged("none"),
                    Ok(Some((ex, off))) => json!({"t":"some","start": ex.iso_literal_start_index, "off": off}),
                };
                p2o.push(json!({"line": line, "ch": ch, "res": res}));
                if i == 0 {
                    hover_range = match catch_unwind(AssertUnwindSafe(|| {
                        on_hover(
                            &lsp,
                            HoverParams {
                                text_document_position_params: TextDocumentPositionParams {
                                    text_document: ident(),
                                    position: Position { line, character: ch },
                                },
                                work_done_progress_params: WorkDoneProgressParams::default(),
                            },
                        )
                    })) {
                        Err(_) => "panic",
                        Ok(Err(_)) => "err",
                        Ok(Ok(None)) => "none",
                        Ok(Ok(Some(h))) => {
                            if h.range.is_some() {
                                "some"
                            } else {
                                "none"
                            }
                        }
                    };
                }
            }
        }

        // goto definition
        let mut gotos = vec![];
        if let Some(gs) = rec.get("goto").and_then(|v| v.as_array()) {
            for g in gs {
                let line = g["line"].as_u64().unwrap() as u32;
                let ch = g["ch"].as_u64().unwrap() as u32;
                let res = match catch_unwind(AssertUnwindSafe(|| {
                    on_goto_definition(
                        &lsp,
                        GotoDefinitionParams {
                            text_document_position_params: TextDocumentPositionParams {
                                text_document: ident(),
                                position: Position { line, character: ch },
                            },
                            work_done_progress_params: WorkDoneProgressParams::default(),
                            partial_result_params: PartialResultParams::default(),
                        },
                    )
                })) {
                    Err(_) => tagged("panic"),
                    Ok(Err(_)) => tagged("err"),
                    Ok(Ok(None)) => tagged("none"),
                    Ok(Ok(Some(GotoDefinitionResponse::Scalar(l)))) => {
                        let mut r = range_json(&l.range);
                        r["t"] = json!("some");
                        r["in_doc"] = json!(l.uri == uri);
                        r["uri_tail"] = json!(l.uri.as_str().rsplit('/').next().unwrap_or(""));
                        r
                    }
                    Ok(Ok(Some(_))) => tagged("err"),
                };
                let parent = g["parent"].as_str().unwrap().intern().into();
                let name = g["name"].as_str().unwrap().intern().into();
                let truth = match catch_unwind(AssertUnwindSafe(|| selectable_definition_location(db, parent, name))) {
                    Ok(Some(loc)) => {
                        let (bs, be) = loc_bytes(&loc);
                        json!({"t":"some","bs":bs,"be":be,
                               "in_doc": loc.text_source.relative_path_to_source_file == rel,
                               "path": loc.text_source.relative_path_to_source_file.lookup()})
                    }
                    _ => tagged("none"),
                };
                gotos.push(json!({"line": line, "ch": ch, "res": res, "truth": truth}));
            }
        }

        let obj = rec.as_object_mut().unwrap();
        obj.insert("extractions".into(), json!(ex_json));
        obj.insert("parse".into(), json!(parse_json));
        obj.insert("sem".into(), sem);
        obj.insert("fmt".into(), fmt);
        obj.insert("diags".into(), json!(diags));
        obj.insert("p2o".into(), json!(p2o));
        obj.insert("goto".into(), json!(gotos));
        obj.insert("hover_range".into(), json!(hover_range));
        serde_json::to_writer(&mut w, &rec).unwrap();
        w.write_all(b"\n").unwrap();
    }
    w.flush().unwrap();
}
