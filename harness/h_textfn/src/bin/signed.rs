//! C33 harness: drive the real `signedsource::{sign_file, is_valid_signature, is_signed}` and project.
//!
//! stdin : ndjson cases {"sym":[class symbols], "content":[code points], ...}
//! stdout: the record plus
//!   "content_sym": lexing of the content (same lexer as for the signed file, see below)
//!   "content_md5": hex md5 of the content (independent `md-5` observer, only compared for equality in TLA+)
//!   "signed_before","valid_before": is_signed / is_valid_signature on the unsigned content
//!   "sign": "ok" | "panic"
//!   when ok: "signed_len" (chars), "signed_sym": lexing of the signed file into
//!            {"k":"c"|"G"|"T"|"S","at":char offset,"len":chars[,"h":hex]}  (fixed literals, no judgement),
//!            "signed_after","valid_after",
//!            "edits_tried": number of single-character substitutions tried (every position x 4 other chars + its line-ending/blank/case sibling),
//!            "still_valid": [{"pos":char offset,"cp":replacement}] = every substitution after which
//!                           is_valid_signature still returned true (wherever it is; TLA+ decides if that is allowed)
use std::io::{BufRead, Write};
use std::panic::{AssertUnwindSafe, catch_unwind};

use md5::{Digest, Md5};
use serde_json::{Value, json};
use signedsource::{NEWTOKEN, SIGNING_TOKEN, is_signed, is_valid_signature, sign_file};

const GEN: &str = "\x40generated ";

fn md5hex(s: &str) -> String {
    let mut h = Md5::new();
    h.update(s.as_bytes());
    hex::encode(h.finalize())
}

fn lex(chars: &[char]) -> Vec<Value> {
    let gen_c: Vec<char> = GEN.chars().collect();
    let tok_c: Vec<char> = NEWTOKEN.chars().collect();
    let pre: Vec<char> = "SignedSource<<".chars().collect();
    let mut out = vec![];
    let mut i = 0;
    while i < chars.len() {
        let rest = &chars[i..];
        if rest.starts_with(&gen_c) {
            out.push(json!({"k":"G","at":i,"len":gen_c.len()}));
            i += gen_c.len();
        } else if rest.starts_with(&tok_c) {
            out.push(json!({"k":"T","at":i,"len":tok_c.len()}));
            i += tok_c.len();
        } else if rest.starts_with(&pre)
            && rest.len() >= pre.len() + 34
            && rest[pre.len()..pre.len() + 32].iter().all(|c| matches!(c, '0'..='9' | 'a'..='f'))
            && rest[pre.len() + 32] == '>'
            && rest[pre.len() + 33] == '>'
        {
            let h: String = rest[pre.len()..pre.len() + 32].iter().collect();
            out.push(json!({"k":"S","at":i,"len":pre.len()+34,"h":h}));
            i += pre.len() + 34;
        } else {
            out.push(json!({"k":"c","at":i,"len":1}));
            i += 1;
        }
    }
    out
}

fn main() {
    if std::env::args().nth(1).as_deref() == Some("token") {
        // the literal texts of the crate under test, so that the driver never hard-codes them
        println!("{}", json!({"newtoken": NEWTOKEN, "signing_token": SIGNING_TOKEN}));
        return;
    }
    std::panic::set_hook(Box::new(|_| {}));
    let stdin = std::io::stdin();
    let stdout = std::io::stdout();
    let mut w = std::io::BufWriter::new(stdout.lock());
    for line in stdin.lock().lines() {
        let line = line.unwrap();
        if line.trim().is_empty() {
            continue;
        }
        let mut rec: Value = serde_json::from_str(&line).expect("bad case json");
        let content: String = rec["content"]
            .as_array()
            .unwrap()
            .iter()
            .map(|c| char::from_u32(c.as_u64().unwrap() as u32).unwrap())
            .collect();
        let obj = rec.as_object_mut().unwrap();
        obj.insert("content_md5".into(), json!(md5hex(&content)));
        obj.insert("content_sym".into(), json!(lex(&content.chars().collect::<Vec<char>>())));
        obj.insert("signed_before".into(), json!(is_signed(&content)));
        obj.insert("valid_before".into(), json!(is_valid_signature(&content)));
        match catch_unwind(AssertUnwindSafe(|| sign_file(&content))) {
            Err(_) => {
                obj.insert("sign".into(), json!("panic"));
            }
            Ok(signed) => {
                let chars: Vec<char> = signed.chars().collect();
                obj.insert("sign".into(), json!("ok"));
                obj.insert("signed_len".into(), json!(chars.len()));
                obj.insert("signed_sym".into(), json!(lex(&chars)));
                obj.insert("signed_after".into(), json!(is_signed(&signed)));
                obj.insert("valid_after".into(), json!(is_valid_signature(&signed)));
                let mut tried = 0u32;
                let mut still = vec![];
                for p in 0..chars.len() {
                    // replacements of several kinds (blank, line break, punctuation, letter, digit), so that an
                    // implementation that normalises white space / case before hashing is noticed
                    let mut cands: Vec<char> = [' ', '\n', '#', 'a', '0', 'Z']
                        .into_iter()
                        .filter(|c| *c != chars[p])
                        .take(4)
                        .collect();
                    // plus the sibling an implementation might identify the character with
                    // (line-ending, blank or case normalisation before hashing)
                    let sibling = match chars[p] {
                        '\n' => Some('\r'),
                        '\r' => Some('\n'),
                        ' ' => Some('\t'),
                        '\t' => Some(' '),
                        c if c.is_ascii_lowercase() => Some(c.to_ascii_uppercase()),
                        c if c.is_ascii_uppercase() => Some(c.to_ascii_lowercase()),
                        _ => None,
                    };
                    if let Some(sb) = sibling {
                        if !cands.contains(&sb) {
                            cands.push(sb);
                        }
                    }
                    for c in cands {
                        let mut e = chars.clone();
                        e[p] = c;
                        let es: String = e.into_iter().collect();
                        tried += 1;
                        let v = catch_unwind(AssertUnwindSafe(|| is_valid_signature(&es))).unwrap_or(false);
                        if v {
                            still.push(json!({"pos":p,"cp":c as u32}));
                        }
                    }
                }
                obj.insert("edits_tried".into(), json!(tried));
                obj.insert("still_valid".into(), json!(still));
            }
        }
        serde_json::to_writer(&mut w, &rec).unwrap();
        w.write_all(b"\n").unwrap();
    }
    w.flush().unwrap();
}
