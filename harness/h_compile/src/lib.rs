//! h_compile: drive the real isograph compiler on a project given as JSON and project what it
//! produced to JSON.  This crate is TRUSTED BASE of the `project` engine: it must stay dumb —
//! no property is judged here; the TLA+ predicates (spec/project/*.tla) judge the projections.
//!
//! Project (input):
//!   { "id": any,
//!     "schema": "<sdl text>", "extensions": ["<sdl text>", ...],
//!     "files": [ {"path": "src/a.ts", "content": "..."} ],        paths relative to the project dir
//!     "raw_files": [ {"path": "...", "bytes": [..]} ],              optional (non-UTF-8 content)
//!     "config": { "project_root": "./src", "artifact_directory": "./out", "options": {...} },  optional
//!     "want": ["artifacts", "js", "ops"] }                          optional, default all
//! Observation (output):
//!   { "id", "outcome": "ok" | "diagnostics" | "panic",
//!     "diagnostics": ["..."], "panic_msg": "...",
//!     "artifacts": { "<path relative to __isograph>": "<content>" },
//!     "js":  { "<path>": { "parses": bool, "imports": [..], "default": <json>, "consts": {..} } },
//!     "ops": { "<path of *query_text*.ts>": <operation tree> } }
use std::fs;
use std::panic::{AssertUnwindSafe, catch_unwind};
use std::path::{Path, PathBuf};

use common_lang_types::CurrentWorkingDirectory;
use graphql_network_protocol::GraphQLAndJavascriptProfile;
use intern::string_key::Intern;
use isograph_compiler::CompilerState;
use isograph_compiler::batch_compile::compile;
use isograph_config::create_config;
use serde_json::{Map, Value, json};

pub mod gql;
pub mod js;

pub fn cwd_of(dir: &Path) -> CurrentWorkingDirectory {
    dir.to_str().expect("utf-8 path").intern().into()
}

/// Writes the project into `dir` (which is wiped first) and returns the config path.
pub fn materialise(dir: &Path, proj: &Value) -> PathBuf {
    let _ = fs::remove_dir_all(dir);
    fs::create_dir_all(dir).expect("create project dir");
    write_project_files(dir, proj);
    let cfg_in = proj.get("config").cloned().unwrap_or(json!({}));
    let mut cfg = Map::new();
    cfg.insert(
        "project_root".into(),
        cfg_in.get("project_root").cloned().unwrap_or(json!("./src")),
    );
    if let Some(a) = cfg_in.get("artifact_directory") {
        cfg.insert("artifact_directory".into(), a.clone());
    }
    cfg.insert("schema".into(), json!("./schema.graphql"));
    let n_ext = proj.get("extensions").and_then(|e| e.as_array()).map(|a| a.len()).unwrap_or(0);
    if n_ext > 0 {
        cfg.insert(
            "schema_extensions".into(),
            Value::Array((0..n_ext).map(|i| json!(format!("./ext{i}.graphql"))).collect()),
        );
    }
    if let Some(o) = cfg_in.get("options") {
        cfg.insert("options".into(), o.clone());
    }
    let cfg_path = dir.join("isograph.config.json");
    fs::write(&cfg_path, serde_json::to_string_pretty(&Value::Object(cfg)).unwrap()).unwrap();
    cfg_path
}

pub fn write_project_files(dir: &Path, proj: &Value) {
    if let Some(s) = proj.get("schema").and_then(|s| s.as_str()) {
        fs::write(dir.join("schema.graphql"), s).unwrap();
    }
    if let Some(exts) = proj.get("extensions").and_then(|e| e.as_array()) {
        for (i, e) in exts.iter().enumerate() {
            fs::write(dir.join(format!("ext{i}.graphql")), e.as_str().unwrap_or("")).unwrap();
        }
    }
    if let Some(files) = proj.get("files").and_then(|f| f.as_array()) {
        for f in files {
            let p = dir.join(f["path"].as_str().unwrap());
            fs::create_dir_all(p.parent().unwrap()).unwrap();
            fs::write(&p, f["content"].as_str().unwrap_or("")).unwrap();
        }
    }
    if let Some(files) = proj.get("raw_files").and_then(|f| f.as_array()) {
        for f in files {
            let p = dir.join(f["path"].as_str().unwrap());
            fs::create_dir_all(p.parent().unwrap()).unwrap();
            let bytes: Vec<u8> = f["bytes"].as_array().unwrap().iter().map(|b| b.as_u64().unwrap() as u8).collect();
            fs::write(&p, bytes).unwrap();
        }
    }
}

fn walk(dir: &Path, base: &Path, out: &mut Map<String, Value>) {
    let Ok(rd) = fs::read_dir(dir) else { return };
    let mut entries: Vec<_> = rd.filter_map(|e| e.ok()).collect();
    entries.sort_by_key(|e| e.file_name());
    for e in entries {
        let p = e.path();
        if p.is_dir() {
            walk(&p, base, out);
        } else {
            let rel = p.strip_prefix(base).unwrap().to_string_lossy().to_string();
            let content = fs::read(&p).unwrap_or_default();
            out.insert(rel, Value::String(String::from_utf8_lossy(&content).to_string()));
        }
    }
}

/// All files under the artifact directory, keyed by path relative to it.
pub fn read_artifacts(artifact_dir: &Path) -> Map<String, Value> {
    let mut m = Map::new();
    walk(artifact_dir, artifact_dir, &mut m);
    m
}

pub fn panic_message(p: Box<dyn std::any::Any + Send>) -> String {
    p.downcast_ref::<String>()
        .cloned()
        .or_else(|| p.downcast_ref::<&str>().map(|s| s.to_string()))
        .unwrap_or_else(|| "<non-string panic>".to_string())
        .chars()
        .filter(|c| c.is_ascii() && !c.is_control())
        .take(300)
        .collect()
}

pub fn ascii(s: &str) -> String {
    s.chars().map(|c| if c.is_ascii() && (c == '\n' || !c.is_control()) { c } else { '?' }).collect()
}

/// One batch compile of the project in `dir`, as `compile_and_print` does it.
pub fn run_project(dir: &Path, proj: &Value) -> Value {
    let want: Vec<String> = proj
        .get("want")
        .and_then(|w| w.as_array())
        .map(|a| a.iter().filter_map(|s| s.as_str().map(|s| s.to_string())).collect())
        .unwrap_or_else(|| vec!["artifacts".into(), "js".into(), "ops".into()]);
    let mut out = Map::new();
    if let Some(id) = proj.get("id") {
        out.insert("id".into(), id.clone());
    }
    let cfg_path = materialise(dir, proj);
    let dir_c = dir.canonicalize().unwrap();
    let result = catch_unwind(AssertUnwindSafe(|| {
        let cwd = cwd_of(&dir_c);
        let config = create_config(&cfg_path, cwd);
        let artifact_dir = config.artifact_directory.absolute_path.clone();
        let mut state = match CompilerState::<GraphQLAndJavascriptProfile>::new(config, cwd) {
            Ok(s) => s,
            Err(e) => return (Err(vec![format!("{e}")]), artifact_dir),
        };
        let r = compile::<GraphQLAndJavascriptProfile>(&mut state);
        match r {
            Ok(stats) => (
                Ok(json!({"client_fields": stats.client_field_count, "client_pointers": stats.client_pointer_count,
                          "entrypoints": stats.entrypoint_count, "written": stats.total_artifacts_written})),
                artifact_dir,
            ),
            Err(errs) => (
                Err(errs.iter().map(|e| e.printable(state.db.print_location_fn(false)).to_string()).collect()),
                artifact_dir,
            ),
        }
    }));
    match result {
        Err(p) => {
            out.insert("outcome".into(), json!("panic"));
            out.insert("panic_msg".into(), json!(panic_message(p)));
        }
        Ok((Err(diags), _)) => {
            out.insert("outcome".into(), json!("diagnostics"));
            out.insert("diagnostics".into(), Value::Array(diags.iter().map(|d| json!(ascii(d))).collect()));
        }
        Ok((Ok(stats), artifact_dir)) => {
            out.insert("outcome".into(), json!("ok"));
            out.insert("stats".into(), stats);
            let arts = read_artifacts(&artifact_dir);
            if want.iter().any(|w| w == "js") {
                let mut jsm = Map::new();
                for (p, c) in arts.iter() {
                    if p.ends_with(".ts") || p.ends_with(".js") {
                        jsm.insert(p.clone(), js::module_to_json(c.as_str().unwrap()));
                    } else if p.ends_with(".json") {
                        let ok = serde_json::from_str::<Value>(c.as_str().unwrap()).is_ok();
                        jsm.insert(p.clone(), json!({"parses": ok, "json": true}));
                    }
                }
                out.insert("js".into(), Value::Object(jsm));
            }
            if want.iter().any(|w| w == "ops") {
                let mut ops = Map::new();
                for (p, c) in arts.iter() {
                    let name = p.rsplit('/').next().unwrap_or("");
                    if name.contains("query_text") && name.ends_with(".ts") {
                        let m = js::module_to_json(c.as_str().unwrap());
                        match m.get("default") {
                            Some(Value::String(text)) => {
                                ops.insert(p.clone(), gql::operation_to_json(text));
                            }
                            _ => {
                                ops.insert(p.clone(), json!({"ok": false, "error": "default export is not a string literal"}));
                            }
                        }
                    }
                }
                out.insert("ops".into(), Value::Object(ops));
            }
            if want.iter().any(|w| w == "artifacts") {
                out.insert("artifacts".into(), Value::Object(arts));
            }
        }
    }
    Value::Object(out)
}
