//! Observer: parse a generated TypeScript module with swc and project it to JSON.
//!   strings -> JSON strings, numbers -> numbers, booleans -> booleans, null -> {"$null":true},
//!   identifiers -> {"$ref": name}, arrays / object literals structurally,
//!   `x as T`, `x satisfies T`, `(x)`, `x!` are unwrapped, arrow functions -> {"$arrow": body},
//!   `import('p')` -> {"$import": "p"}, other calls -> {"$call": callee, "args": [...]},
//!   anything else -> {"$expr": kind}.
use serde_json::{Map, Value, json};
use swc_common::{FileName, SourceMap, sync::Lrc};
use swc_ecma_ast::*;
use swc_ecma_parser::{Parser, StringInput, Syntax, TsSyntax, lexer::Lexer};

pub fn parse_module(src: &str) -> Result<Module, String> {
    let cm: Lrc<SourceMap> = Default::default();
    let fm = cm.new_source_file(Lrc::new(FileName::Custom("artifact.ts".into())), src.to_string());
    let lexer = Lexer::new(
        Syntax::Typescript(TsSyntax { tsx: false, ..Default::default() }),
        EsVersion::latest(),
        StringInput::from(&*fm),
        None,
    );
    let mut parser = Parser::new_from(lexer);
    let m = parser.parse_module().map_err(|e| format!("{:?}", e.kind()))?;
    let errs = parser.take_errors();
    if let Some(e) = errs.first() {
        return Err(format!("{:?}", e.kind()));
    }
    Ok(m)
}

fn prop_name(p: &PropName) -> String {
    match p {
        PropName::Ident(i) => i.sym.to_string(),
        PropName::Str(s) => s.value.to_string(),
        PropName::Num(n) => n.value.to_string(),
        PropName::BigInt(b) => b.value.to_string(),
        PropName::Computed(_) => "$computed".to_string(),
    }
}

pub fn expr_to_json(e: &Expr) -> Value {
    match e {
        Expr::Lit(Lit::Str(s)) => Value::String(s.value.to_string()),
        Expr::Lit(Lit::Num(n)) => {
            if n.value.fract() == 0.0 && n.value.abs() < 2e9 {
                json!(n.value as i64)
            } else {
                json!({"$num": n.value.to_string()})
            }
        }
        Expr::Lit(Lit::Bool(b)) => Value::Bool(b.value),
        Expr::Lit(Lit::Null(_)) => json!({"$null": true}),
        Expr::Lit(_) => json!({"$expr": "lit"}),
        Expr::Ident(i) => json!({"$ref": i.sym.to_string()}),
        Expr::Array(a) => Value::Array(
            a.elems
                .iter()
                .map(|el| match el {
                    Some(ExprOrSpread { spread: None, expr }) => expr_to_json(expr),
                    Some(ExprOrSpread { spread: Some(_), expr }) => json!({"$spread": expr_to_json(expr)}),
                    None => json!({"$hole": true}),
                })
                .collect(),
        ),
        Expr::Object(o) => {
            let mut m = Map::new();
            for p in &o.props {
                match p {
                    PropOrSpread::Prop(p) => match &**p {
                        Prop::KeyValue(kv) => {
                            m.insert(prop_name(&kv.key), expr_to_json(&kv.value));
                        }
                        Prop::Shorthand(i) => {
                            m.insert(i.sym.to_string(), json!({"$ref": i.sym.to_string()}));
                        }
                        Prop::Method(me) => {
                            m.insert(prop_name(&me.key), json!({"$expr": "method"}));
                        }
                        _ => {
                            m.insert("$prop".into(), json!({"$expr": "accessor"}));
                        }
                    },
                    PropOrSpread::Spread(s) => {
                        m.insert("$spread".into(), expr_to_json(&s.expr));
                    }
                }
            }
            Value::Object(m)
        }
        Expr::Paren(p) => expr_to_json(&p.expr),
        Expr::TsAs(t) => expr_to_json(&t.expr),
        Expr::TsConstAssertion(t) => expr_to_json(&t.expr),
        Expr::TsSatisfies(t) => expr_to_json(&t.expr),
        Expr::TsNonNull(t) => expr_to_json(&t.expr),
        Expr::TsTypeAssertion(t) => expr_to_json(&t.expr),
        Expr::Arrow(a) => match &*a.body {
            BlockStmtOrExpr::Expr(b) => json!({"$arrow": expr_to_json(b)}),
            BlockStmtOrExpr::BlockStmt(_) => json!({"$arrow": {"$expr": "block"}}),
        },
        Expr::Call(c) => {
            let args: Vec<Value> = c.args.iter().map(|a| expr_to_json(&a.expr)).collect();
            match &c.callee {
                Callee::Import(_) => json!({"$import": args.first().cloned().unwrap_or(Value::Null)}),
                Callee::Expr(e) => json!({"$call": expr_to_json(e), "args": args}),
                Callee::Super(_) => json!({"$expr": "super"}),
            }
        }
        Expr::Member(m) => {
            let prop = match &m.prop {
                MemberProp::Ident(i) => i.sym.to_string(),
                _ => "$computed".to_string(),
            };
            json!({"$member": expr_to_json(&m.obj), "prop": prop})
        }
        Expr::Tpl(t) => {
            if t.exprs.is_empty() && t.quasis.len() == 1 {
                match &t.quasis[0].cooked {
                    Some(c) => Value::String(c.to_string()),
                    None => json!({"$expr": "tpl"}),
                }
            } else {
                json!({"$expr": "tpl"})
            }
        }
        Expr::Unary(u) => {
            if let (UnaryOp::Minus, Expr::Lit(Lit::Num(n))) = (u.op, &*u.arg) {
                if n.value.fract() == 0.0 && n.value.abs() < 2e9 {
                    return json!(-(n.value as i64));
                }
                return json!({"$num": format!("-{}", n.value)});
            }
            json!({"$expr": "unary"})
        }
        Expr::Fn(_) => json!({"$expr": "fn"}),
        _ => json!({"$expr": "other"}),
    }
}

fn entity_name(e: &TsEntityName) -> String {
    match e {
        TsEntityName::Ident(i) => i.sym.to_string(),
        TsEntityName::TsQualifiedName(q) => format!("{}.{}", entity_name(&q.left), q.right.sym),
    }
}

/// TypeScript type -> JSON:
///   {k:"kw",n} | {k:"obj",props:[{name,optional,readonly,type}]} | {k:"union",of} | {k:"inter",of}
///   | {k:"array",of} | {k:"readonly",of} | {k:"tuple",of} | {k:"ref",n,args} | {k:"lit",v}
///   | {k:"typeof",n} | {k:"other",what}
pub fn ts_type_to_json(t: &TsType) -> Value {
    match t {
        TsType::TsKeywordType(k) => {
            let n = match k.kind {
                TsKeywordTypeKind::TsStringKeyword => "string",
                TsKeywordTypeKind::TsNumberKeyword => "number",
                TsKeywordTypeKind::TsBooleanKeyword => "boolean",
                TsKeywordTypeKind::TsNullKeyword => "null",
                TsKeywordTypeKind::TsUndefinedKeyword => "undefined",
                TsKeywordTypeKind::TsUnknownKeyword => "unknown",
                TsKeywordTypeKind::TsAnyKeyword => "any",
                TsKeywordTypeKind::TsNeverKeyword => "never",
                TsKeywordTypeKind::TsVoidKeyword => "void",
                TsKeywordTypeKind::TsObjectKeyword => "object",
                _ => "otherkw",
            };
            json!({"k": "kw", "n": n})
        }
        TsType::TsTypeLit(l) => {
            let mut props = vec![];
            for m in &l.members {
                match m {
                    TsTypeElement::TsPropertySignature(p) => {
                        let name = match &*p.key {
                            Expr::Ident(i) => i.sym.to_string(),
                            Expr::Lit(Lit::Str(s)) => s.value.to_string(),
                            Expr::Lit(Lit::Num(n)) => n.value.to_string(),
                            _ => "$computed".to_string(),
                        };
                        let ty = p.type_ann.as_ref().map(|a| ts_type_to_json(&a.type_ann)).unwrap_or(json!({"k": "other", "what": "untyped"}));
                        props.push(json!({"name": name, "optional": p.optional, "readonly": p.readonly, "type": ty}));
                    }
                    _ => props.push(json!({"name": "$member", "optional": false, "readonly": false, "type": {"k": "other", "what": "member"}})),
                }
            }
            json!({"k": "obj", "props": props})
        }
        TsType::TsUnionOrIntersectionType(TsUnionOrIntersectionType::TsUnionType(u)) => {
            json!({"k": "union", "of": u.types.iter().map(|t| ts_type_to_json(t)).collect::<Vec<_>>()})
        }
        TsType::TsUnionOrIntersectionType(TsUnionOrIntersectionType::TsIntersectionType(u)) => {
            json!({"k": "inter", "of": u.types.iter().map(|t| ts_type_to_json(t)).collect::<Vec<_>>()})
        }
        TsType::TsParenthesizedType(p) => ts_type_to_json(&p.type_ann),
        TsType::TsArrayType(a) => json!({"k": "array", "of": ts_type_to_json(&a.elem_type)}),
        TsType::TsTupleType(t) => json!({"k": "tuple", "of": t.elem_types.iter().map(|e| ts_type_to_json(&e.ty)).collect::<Vec<_>>()}),
        TsType::TsTypeOperator(o) => json!({"k": "readonly", "of": ts_type_to_json(&o.type_ann)}),
        TsType::TsTypeRef(r) => {
            let args: Vec<Value> = r.type_params.as_ref().map(|p| p.params.iter().map(|t| ts_type_to_json(t)).collect()).unwrap_or_default();
            json!({"k": "ref", "n": entity_name(&r.type_name), "args": args})
        }
        TsType::TsLitType(l) => match &l.lit {
            TsLit::Str(s) => json!({"k": "lit", "v": s.value.to_string()}),
            TsLit::Number(n) => json!({"k": "lit", "v": n.value}),
            TsLit::Bool(b) => json!({"k": "lit", "v": b.value}),
            TsLit::Tpl(t) => {
                if t.types.is_empty() && t.quasis.len() == 1 {
                    json!({"k": "lit", "v": t.quasis[0].cooked.as_ref().map(|c| c.to_string()).unwrap_or_default()})
                } else {
                    json!({"k": "other", "what": "template"})
                }
            }
            _ => json!({"k": "other", "what": "lit"}),
        },
        TsType::TsTypeQuery(q) => match &q.expr_name {
            TsTypeQueryExpr::TsEntityName(e) => json!({"k": "typeof", "n": entity_name(e)}),
            _ => json!({"k": "other", "what": "typeof import"}),
        },
        TsType::TsFnOrConstructorType(_) => json!({"k": "other", "what": "fn"}),
        TsType::TsConditionalType(_) => json!({"k": "other", "what": "conditional"}),
        _ => json!({"k": "other", "what": "type"}),
    }
}

fn fn_sig_to_json(name: &str, f: &Function) -> Value {
    let params: Vec<Value> = f
        .params
        .iter()
        .map(|p| match &p.pat {
            Pat::Ident(b) => b.type_ann.as_ref().map(|a| ts_type_to_json(&a.type_ann)).unwrap_or(json!({"k": "other", "what": "untyped"})),
            _ => json!({"k": "other", "what": "pattern"}),
        })
        .collect();
    let ret = f.return_type.as_ref().map(|a| ts_type_to_json(&a.type_ann)).unwrap_or(json!({"k": "other", "what": "none"}));
    json!({"fn": name, "params": params, "ret": ret, "has_body": f.body.is_some()})
}

/// { parses, error?, imports: [{from, default?, names: [..], type_only}], dynamic_imports: [..],
///   consts: {name: json}, default: json, default_ref?: name, exports: [names],
///   types: {alias: type json}, fns: [function signatures in source order (overloads have has_body=false)] }
pub fn module_to_json(src: &str) -> Value {
    let module = match parse_module(src) {
        Ok(m) => m,
        Err(e) => return json!({"parses": false, "error": e}),
    };
    let mut imports = vec![];
    let mut consts = Map::new();
    let mut default = Value::Null;
    let mut default_ref = Value::Null;
    let mut exports = vec![];
    let mut types = Map::new();
    let mut fns = vec![];
    let mut handle_var = |v: &VarDecl, consts: &mut Map<String, Value>| {
        for d in &v.decls {
            if let (Pat::Ident(b), Some(init)) = (&d.name, &d.init) {
                consts.insert(b.id.sym.to_string(), expr_to_json(init));
            }
        }
    };
    for item in &module.body {
        match item {
            ModuleItem::ModuleDecl(ModuleDecl::Import(i)) => {
                let mut names = vec![];
                let mut def = Value::Null;
                for s in &i.specifiers {
                    match s {
                        ImportSpecifier::Default(d) => def = json!(d.local.sym.to_string()),
                        ImportSpecifier::Named(n) => names.push(json!(n.local.sym.to_string())),
                        ImportSpecifier::Namespace(n) => names.push(json!(format!("* as {}", n.local.sym))),
                    }
                }
                imports.push(json!({"from": i.src.value.to_string(), "default": def, "names": names, "type_only": i.type_only}));
            }
            ModuleItem::ModuleDecl(ModuleDecl::ExportDefaultExpr(e)) => {
                default = expr_to_json(&e.expr);
                if let Expr::Ident(i) = &*e.expr {
                    default_ref = json!(i.sym.to_string());
                }
            }
            ModuleItem::ModuleDecl(ModuleDecl::ExportDecl(d)) => match &d.decl {
                Decl::Var(v) => {
                    for dd in &v.decls {
                        if let Pat::Ident(b) = &dd.name {
                            exports.push(json!(b.id.sym.to_string()));
                        }
                    }
                    handle_var(v, &mut consts);
                }
                Decl::TsTypeAlias(t) => {
                    exports.push(json!(t.id.sym.to_string()));
                    types.insert(t.id.sym.to_string(), ts_type_to_json(&t.type_ann));
                }
                Decl::TsInterface(t) => exports.push(json!(t.id.sym.to_string())),
                Decl::Fn(f) => {
                    exports.push(json!(f.ident.sym.to_string()));
                    fns.push(fn_sig_to_json(&f.ident.sym, &f.function));
                }
                _ => {}
            },
            ModuleItem::ModuleDecl(ModuleDecl::ExportNamed(n)) => {
                for s in &n.specifiers {
                    if let ExportSpecifier::Named(n) = s {
                        if let ModuleExportName::Ident(i) = &n.orig {
                            exports.push(json!(i.sym.to_string()));
                        }
                    }
                }
            }
            ModuleItem::Stmt(Stmt::Decl(Decl::Var(v))) => handle_var(v, &mut consts),
            ModuleItem::Stmt(Stmt::Decl(Decl::TsTypeAlias(t))) => {
                types.insert(t.id.sym.to_string(), ts_type_to_json(&t.type_ann));
            }
            ModuleItem::Stmt(Stmt::Decl(Decl::Fn(f))) => fns.push(fn_sig_to_json(&f.ident.sym, &f.function)),
            _ => {}
        }
    }
    if let Value::String(name) = &default_ref {
        if let Some(v) = consts.get(name) {
            default = v.clone();
        }
    }
    let mut dynamic = vec![];
    collect_dynamic_imports(&default, &mut dynamic);
    for v in consts.values() {
        collect_dynamic_imports(v, &mut dynamic);
    }
    json!({"parses": true, "imports": imports, "dynamic_imports": dynamic, "consts": consts,
           "default": default, "default_ref": default_ref, "exports": exports, "types": types, "fns": fns})
}

fn collect_dynamic_imports(v: &Value, out: &mut Vec<Value>) {
    match v {
        Value::Object(m) => {
            if let Some(p) = m.get("$import") {
                out.push(p.clone());
            }
            for x in m.values() {
                collect_dynamic_imports(x, out);
            }
        }
        Value::Array(a) => {
            for x in a {
                collect_dynamic_imports(x, out);
            }
        }
        _ => {}
    }
}
