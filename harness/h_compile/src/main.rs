//! h_compile: run the real isograph compiler on projects given as JSON (one per stdin line) and
//! print one JSON observation per project.  See lib.rs for the formats.
use std::io::{BufRead, Write};

fn main() {
    std::panic::set_hook(Box::new(|_| {}));
    let args: Vec<String> = std::env::args().collect();
    let base = args.get(1).cloned().unwrap_or_else(|| "work/h_compile".to_string());
    let stdin = std::io::stdin();
    let stdout = std::io::stdout();
    for (i, line) in stdin.lock().lines().enumerate() {
        let line = line.unwrap();
        if line.trim().is_empty() {
            continue;
        }
        let proj: serde_json::Value = serde_json::from_str(&line).expect("bad project json");
        // announce before running so that a driver can attribute an abort / stack overflow
        {
            let mut o = stdout.lock();
            writeln!(o, "{}", serde_json::json!({"begin": proj.get("id").cloned().unwrap_or(serde_json::json!(i))})).unwrap();
            o.flush().unwrap();
        }
        let dir = std::path::PathBuf::from(&base).join(format!("p{}", std::process::id()));
        let obs = h_compile::run_project(&dir, &proj);
        let mut o = stdout.lock();
        writeln!(o, "{}", obs).unwrap();
        o.flush().unwrap();
    }
}
