//! Observer: a small, strict parser for GraphQL *executable* documents (June 2018 grammar),
//! independent of the repository's own parsers.  Projects one operation to JSON:
//!   { ok: true, kind, name, vars: [{name, type, default?}], directives, selections: [sel] }
//!   sel   = {t:"field", alias, name, key, args: [[name, value]], directives, selections}
//!         | {t:"inline", on, directives, selections} | {t:"spread", name, directives}
//!   type  = {k:"named", n} | {k:"list", of} | {k:"nonnull", of}
//!   value = {t:"var",n} | {t:"int",v} | {t:"float",v} | {t:"str",cps:[..]} | {t:"bool",v}
//!         | {t:"null"} | {t:"enum",v} | {t:"list",items:[..]} | {t:"obj",fields:[[k,v]]}
//! `key` is the response key (alias if present, else name), also as code points in `key_cps`.
//! On a syntax error: { ok: false, error, at }.
use serde_json::{Value, json};

#[derive(Debug, Clone, PartialEq)]
enum Tok {
    Punct(&'static str),
    Name(String),
    Int(String),
    Float(String),
    Str(String),
    Eof,
}

struct Lexer<'a> {
    s: &'a [char],
    i: usize,
}

fn is_name_start(c: char) -> bool {
    c == '_' || c.is_ascii_alphabetic()
}
fn is_name_cont(c: char) -> bool {
    c == '_' || c.is_ascii_alphanumeric()
}

impl<'a> Lexer<'a> {
    fn skip_ignored(&mut self) {
        while self.i < self.s.len() {
            let c = self.s[self.i];
            if c == ' ' || c == '\t' || c == '\n' || c == '\r' || c == ',' || c == '\u{feff}' {
                self.i += 1;
            } else if c == '#' {
                while self.i < self.s.len() && self.s[self.i] != '\n' && self.s[self.i] != '\r' {
                    self.i += 1;
                }
            } else {
                break;
            }
        }
    }

    fn next(&mut self) -> Result<(Tok, usize), (String, usize)> {
        self.skip_ignored();
        let start = self.i;
        if self.i >= self.s.len() {
            return Ok((Tok::Eof, start));
        }
        let c = self.s[self.i];
        let p = |s: &'static str| Tok::Punct(s);
        match c {
            '!' | '$' | '(' | ')' | ':' | '=' | '@' | '[' | ']' | '{' | '|' | '}' | '&' => {
                self.i += 1;
                let s: &'static str = match c {
                    '!' => "!",
                    '$' => "$",
                    '(' => "(",
                    ')' => ")",
                    ':' => ":",
                    '=' => "=",
                    '@' => "@",
                    '[' => "[",
                    ']' => "]",
                    '{' => "{",
                    '|' => "|",
                    '}' => "}",
                    _ => "&",
                };
                Ok((p(s), start))
            }
            '.' => {
                if self.s.len() >= self.i + 3 && self.s[self.i + 1] == '.' && self.s[self.i + 2] == '.' {
                    self.i += 3;
                    Ok((p("..."), start))
                } else {
                    Err(("unexpected '.'".into(), start))
                }
            }
            '"' => self.string(),
            c if is_name_start(c) => {
                while self.i < self.s.len() && is_name_cont(self.s[self.i]) {
                    self.i += 1;
                }
                Ok((Tok::Name(self.s[start..self.i].iter().collect()), start))
            }
            c if c == '-' || c.is_ascii_digit() => self.number(),
            other => Err((format!("unexpected character U+{:04X}", other as u32), start)),
        }
    }

    fn number(&mut self) -> Result<(Tok, usize), (String, usize)> {
        let start = self.i;
        if self.s[self.i] == '-' {
            self.i += 1;
        }
        if self.i >= self.s.len() || !self.s[self.i].is_ascii_digit() {
            return Err(("expected digit".into(), self.i));
        }
        if self.s[self.i] == '0' {
            self.i += 1;
            if self.i < self.s.len() && self.s[self.i].is_ascii_digit() {
                return Err(("leading zero".into(), self.i));
            }
        } else {
            while self.i < self.s.len() && self.s[self.i].is_ascii_digit() {
                self.i += 1;
            }
        }
        let mut float = false;
        if self.i < self.s.len() && self.s[self.i] == '.' {
            float = true;
            self.i += 1;
            if self.i >= self.s.len() || !self.s[self.i].is_ascii_digit() {
                return Err(("expected digit after '.'".into(), self.i));
            }
            while self.i < self.s.len() && self.s[self.i].is_ascii_digit() {
                self.i += 1;
            }
        }
        if self.i < self.s.len() && (self.s[self.i] == 'e' || self.s[self.i] == 'E') {
            float = true;
            self.i += 1;
            if self.i < self.s.len() && (self.s[self.i] == '+' || self.s[self.i] == '-') {
                self.i += 1;
            }
            if self.i >= self.s.len() || !self.s[self.i].is_ascii_digit() {
                return Err(("expected exponent digit".into(), self.i));
            }
            while self.i < self.s.len() && self.s[self.i].is_ascii_digit() {
                self.i += 1;
            }
        }
        if self.i < self.s.len() && (is_name_start(self.s[self.i]) || self.s[self.i] == '.') {
            return Err(("number followed by name start".into(), self.i));
        }
        let text: String = self.s[start..self.i].iter().collect();
        Ok((if float { Tok::Float(text) } else { Tok::Int(text) }, start))
    }

    fn string(&mut self) -> Result<(Tok, usize), (String, usize)> {
        let start = self.i;
        if self.s.len() >= self.i + 3 && self.s[self.i + 1] == '"' && self.s[self.i + 2] == '"' {
            // block string
            self.i += 3;
            let mut raw = String::new();
            loop {
                if self.i >= self.s.len() {
                    return Err(("unterminated block string".into(), start));
                }
                if self.s[self.i] == '"' && self.s.len() >= self.i + 3 && self.s[self.i + 1] == '"' && self.s[self.i + 2] == '"' {
                    self.i += 3;
                    break;
                }
                if self.s[self.i] == '\\' && self.s.len() >= self.i + 4 && self.s[self.i + 1] == '"' && self.s[self.i + 2] == '"' && self.s[self.i + 3] == '"' {
                    raw.push_str("\"\"\"");
                    self.i += 4;
                    continue;
                }
                raw.push(self.s[self.i]);
                self.i += 1;
            }
            return Ok((Tok::Str(block_string_value(&raw)), start));
        }
        self.i += 1;
        let mut out = String::new();
        loop {
            if self.i >= self.s.len() {
                return Err(("unterminated string".into(), start));
            }
            let c = self.s[self.i];
            match c {
                '"' => {
                    self.i += 1;
                    break;
                }
                '\n' | '\r' => return Err(("line terminator in string".into(), self.i)),
                '\\' => {
                    self.i += 1;
                    if self.i >= self.s.len() {
                        return Err(("unterminated escape".into(), self.i));
                    }
                    let e = self.s[self.i];
                    self.i += 1;
                    match e {
                        '"' => out.push('"'),
                        '\\' => out.push('\\'),
                        '/' => out.push('/'),
                        'b' => out.push('\u{8}'),
                        'f' => out.push('\u{c}'),
                        'n' => out.push('\n'),
                        'r' => out.push('\r'),
                        't' => out.push('\t'),
                        'u' => {
                            if self.i + 4 > self.s.len() {
                                return Err(("bad unicode escape".into(), self.i));
                            }
                            let h: String = self.s[self.i..self.i + 4].iter().collect();
                            let cp = u32::from_str_radix(&h, 16).map_err(|_| ("bad unicode escape".to_string(), self.i))?;
                            self.i += 4;
                            out.push(char::from_u32(cp).unwrap_or('\u{fffd}'));
                        }
                        _ => return Err((format!("bad escape \\{e}"), self.i - 1)),
                    }
                }
                c if (c as u32) < 0x20 && c != '\t' => return Err(("control character in string".into(), self.i)),
                c => {
                    out.push(c);
                    self.i += 1;
                }
            }
        }
        Ok((Tok::Str(out), start))
    }
}

/// BlockStringValue(rawValue) of the specification.
pub fn block_string_value(raw: &str) -> String {
    let lines: Vec<&str> = {
        let mut v = vec![];
        let mut cur = 0;
        let b = raw.as_bytes();
        let mut i = 0;
        while i < b.len() {
            if b[i] == b'\r' {
                v.push(&raw[cur..i]);
                if i + 1 < b.len() && b[i + 1] == b'\n' {
                    i += 1;
                }
                cur = i + 1;
            } else if b[i] == b'\n' {
                v.push(&raw[cur..i]);
                cur = i + 1;
            }
            i += 1;
        }
        v.push(&raw[cur..]);
        v
    };
    let indent_of = |l: &str| l.chars().take_while(|c| *c == ' ' || *c == '\t').count();
    let mut common: Option<usize> = None;
    for l in lines.iter().skip(1) {
        let ind = indent_of(l);
        if ind < l.chars().count() && common.map(|c| ind < c).unwrap_or(true) {
            common = Some(ind);
        }
    }
    let mut out: Vec<String> = lines
        .iter()
        .enumerate()
        .map(|(i, l)| {
            if i == 0 {
                l.to_string()
            } else {
                match common {
                    Some(c) => l.chars().skip(c.min(l.chars().count())).collect(),
                    None => l.to_string(),
                }
            }
        })
        .collect();
    let blank = |l: &String| l.chars().all(|c| c == ' ' || c == '\t');
    while out.first().map(blank).unwrap_or(false) {
        out.remove(0);
    }
    while out.last().map(blank).unwrap_or(false) {
        out.pop();
    }
    out.join("\n")
}

struct P<'a> {
    lx: Lexer<'a>,
    tok: Tok,
    at: usize,
}

type R<T> = Result<T, (String, usize)>;

fn cps(s: &str) -> Value {
    Value::Array(s.chars().map(|c| json!(c as u32)).collect())
}

impl<'a> P<'a> {
    fn bump(&mut self) -> R<()> {
        let (t, at) = self.lx.next()?;
        self.tok = t;
        self.at = at;
        Ok(())
    }
    fn err<T>(&self, m: &str) -> R<T> {
        Err((format!("{m}, found {:?}", self.tok), self.at))
    }
    fn is_p(&self, s: &str) -> bool {
        matches!(&self.tok, Tok::Punct(p) if *p == s)
    }
    fn expect_p(&mut self, s: &str) -> R<()> {
        if self.is_p(s) {
            self.bump()
        } else {
            self.err(&format!("expected '{s}'"))
        }
    }
    fn name(&mut self) -> R<String> {
        if let Tok::Name(n) = &self.tok {
            let n = n.clone();
            self.bump()?;
            Ok(n)
        } else {
            self.err("expected name")
        }
    }

    fn document(&mut self) -> R<Vec<Value>> {
        let mut defs = vec![];
        while self.tok != Tok::Eof {
            defs.push(self.definition()?);
        }
        if defs.is_empty() {
            return self.err("expected definition");
        }
        Ok(defs)
    }

    fn definition(&mut self) -> R<Value> {
        if self.is_p("{") {
            let sels = self.selection_set()?;
            return Ok(json!({"kind": "query", "name": "", "vars": [], "directives": [], "selections": sels, "shorthand": true}));
        }
        let kw = match &self.tok {
            Tok::Name(n) => n.clone(),
            _ => return self.err("expected definition"),
        };
        match kw.as_str() {
            "query" | "mutation" | "subscription" => {
                self.bump()?;
                let name = if let Tok::Name(_) = &self.tok { self.name()? } else { String::new() };
                let vars = if self.is_p("(") { self.variable_definitions()? } else { vec![] };
                let directives = self.directives(true)?;
                let sels = self.selection_set()?;
                Ok(json!({"kind": kw, "name": name, "vars": vars, "directives": directives, "selections": sels}))
            }
            "fragment" => {
                self.bump()?;
                let name = self.name()?;
                if name == "on" {
                    return self.err("fragment name cannot be 'on'");
                }
                match &self.tok {
                    Tok::Name(n) if n == "on" => self.bump()?,
                    _ => return self.err("expected 'on'"),
                }
                let on = self.name()?;
                let directives = self.directives(false)?;
                let sels = self.selection_set()?;
                Ok(json!({"kind": "fragment", "name": name, "on": on, "directives": directives, "selections": sels}))
            }
            _ => self.err("expected operation or fragment"),
        }
    }

    fn variable_definitions(&mut self) -> R<Vec<Value>> {
        self.expect_p("(")?;
        let mut v = vec![];
        while !self.is_p(")") {
            self.expect_p("$")?;
            let n = self.name()?;
            self.expect_p(":")?;
            let t = self.type_ref()?;
            let mut d = json!({"name": n, "type": t});
            if self.is_p("=") {
                self.bump()?;
                d["default"] = self.value(true)?;
            }
            v.push(d);
        }
        if v.is_empty() {
            return self.err("empty variable definitions");
        }
        self.expect_p(")")?;
        Ok(v)
    }

    fn type_ref(&mut self) -> R<Value> {
        let inner = if self.is_p("[") {
            self.bump()?;
            let of = self.type_ref()?;
            self.expect_p("]")?;
            json!({"k": "list", "of": of})
        } else {
            json!({"k": "named", "n": self.name()?})
        };
        if self.is_p("!") {
            self.bump()?;
            Ok(json!({"k": "nonnull", "of": inner}))
        } else {
            Ok(inner)
        }
    }

    fn directives(&mut self, is_const_ctx_allowed_vars: bool) -> R<Vec<Value>> {
        let _ = is_const_ctx_allowed_vars;
        let mut v = vec![];
        while self.is_p("@") {
            self.bump()?;
            let n = self.name()?;
            let args = if self.is_p("(") { self.arguments()? } else { vec![] };
            v.push(json!({"name": n, "args": args}));
        }
        Ok(v)
    }

    fn arguments(&mut self) -> R<Vec<Value>> {
        self.expect_p("(")?;
        let mut v = vec![];
        while !self.is_p(")") {
            let n = self.name()?;
            self.expect_p(":")?;
            let val = self.value(false)?;
            v.push(json!([n, val]));
        }
        if v.is_empty() {
            return self.err("empty arguments");
        }
        self.expect_p(")")?;
        Ok(v)
    }

    fn value(&mut self, is_const: bool) -> R<Value> {
        match self.tok.clone() {
            Tok::Punct("$") => {
                if is_const {
                    return self.err("variable in const value");
                }
                self.bump()?;
                Ok(json!({"t": "var", "n": self.name()?}))
            }
            Tok::Int(s) => {
                self.bump()?;
                Ok(json!({"t": "int", "v": s}))
            }
            Tok::Float(s) => {
                self.bump()?;
                Ok(json!({"t": "float", "v": s}))
            }
            Tok::Str(s) => {
                self.bump()?;
                Ok(json!({"t": "str", "cps": cps(&s)}))
            }
            Tok::Name(n) => {
                self.bump()?;
                Ok(match n.as_str() {
                    "true" => json!({"t": "bool", "v": true}),
                    "false" => json!({"t": "bool", "v": false}),
                    "null" => json!({"t": "null"}),
                    _ => json!({"t": "enum", "v": n}),
                })
            }
            Tok::Punct("[") => {
                self.bump()?;
                let mut items = vec![];
                while !self.is_p("]") {
                    items.push(self.value(is_const)?);
                }
                self.bump()?;
                Ok(json!({"t": "list", "items": items}))
            }
            Tok::Punct("{") => {
                self.bump()?;
                let mut fields = vec![];
                while !self.is_p("}") {
                    let k = self.name()?;
                    self.expect_p(":")?;
                    fields.push(json!([k, self.value(is_const)?]));
                }
                self.bump()?;
                Ok(json!({"t": "obj", "fields": fields}))
            }
            _ => self.err("expected value"),
        }
    }

    fn selection_set(&mut self) -> R<Vec<Value>> {
        self.expect_p("{")?;
        let mut v = vec![];
        while !self.is_p("}") {
            v.push(self.selection()?);
        }
        if v.is_empty() {
            return self.err("empty selection set");
        }
        self.bump()?;
        Ok(v)
    }

    fn selection(&mut self) -> R<Value> {
        if self.is_p("...") {
            self.bump()?;
            match self.tok.clone() {
                Tok::Name(n) if n == "on" => {
                    self.bump()?;
                    let on = self.name()?;
                    let d = self.directives(false)?;
                    let s = self.selection_set()?;
                    Ok(json!({"t": "inline", "on": on, "directives": d, "selections": s}))
                }
                Tok::Name(n) => {
                    self.bump()?;
                    let d = self.directives(false)?;
                    Ok(json!({"t": "spread", "name": n, "directives": d}))
                }
                _ => {
                    let d = self.directives(false)?;
                    let s = self.selection_set()?;
                    Ok(json!({"t": "inline", "on": "", "directives": d, "selections": s}))
                }
            }
        } else {
            let first = self.name()?;
            let (alias, name) = if self.is_p(":") {
                self.bump()?;
                (first, self.name()?)
            } else {
                (String::new(), first)
            };
            let args = if self.is_p("(") { self.arguments()? } else { vec![] };
            let d = self.directives(false)?;
            let s = if self.is_p("{") { self.selection_set()? } else { vec![] };
            let key = if alias.is_empty() { name.clone() } else { alias.clone() };
            Ok(json!({"t": "field", "alias": alias, "name": name, "key": key, "key_cps": cps(&key), "args": args, "directives": d, "selections": s}))
        }
    }
}

/// Parses a document that must consist of exactly one operation.
pub fn operation_to_json(text: &str) -> Value {
    let chars: Vec<char> = text.chars().collect();
    let mut p = P { lx: Lexer { s: &chars, i: 0 }, tok: Tok::Eof, at: 0 };
    let r = (|| -> R<Vec<Value>> {
        p.bump()?;
        p.document()
    })();
    match r {
        Err((e, at)) => json!({"ok": false, "error": e, "at": at, "text_cps": cps(text)}),
        Ok(defs) => {
            if defs.len() != 1 || defs[0]["kind"] == "fragment" {
                return json!({"ok": false, "error": "expected exactly one operation", "at": 0, "definitions": defs.len()});
            }
            let mut d = defs.into_iter().next().unwrap();
            d["ok"] = json!(true);
            d
        }
    }
}

pub fn document_to_json(text: &str) -> Value {
    let chars: Vec<char> = text.chars().collect();
    let mut p = P { lx: Lexer { s: &chars, i: 0 }, tok: Tok::Eof, at: 0 };
    let r = (|| -> R<Vec<Value>> {
        p.bump()?;
        p.document()
    })();
    match r {
        Err((e, at)) => json!({"ok": false, "error": e, "at": at}),
        Ok(defs) => json!({"ok": true, "definitions": defs}),
    }
}
