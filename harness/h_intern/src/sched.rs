//! Baton scheduler: real OS threads, exactly one of which runs between two hook points.
//!
//! Worker threads call `point(label, arg)` (through `intern::verif_hooks` or directly for the
//! harness-level label "op.call") *before* each atomic / lock step.  `point` parks the thread and hands
//! the baton to the controller, which picks the next thread according to a policy (a schedule produced by
//! TLC, uniformly random, or PCT-style priorities) and never resumes a thread whose next step is a
//! blocking acquisition of a lock that another parked thread holds (holders are tracked from the labels).
//!
//! Trusted base: this file only orders steps and logs them; it judges nothing.

use std::cell::RefCell;
use std::collections::HashMap;
use std::sync::atomic::{AtomicU64, Ordering};
use std::sync::{Arc, Condvar, Mutex};
use std::time::Duration;

pub const NO_RES: i64 = -9;

pub struct Rng(pub u64);
impl Rng {
    pub fn new(seed: u64) -> Rng {
        Rng(seed.wrapping_mul(0x9e37_79b9_7f4a_7c15) ^ 0xd1b5_4a32_d192_ed03)
    }
    pub fn next(&mut self) -> u64 {
        // splitmix64
        self.0 = self.0.wrapping_add(0x9e37_79b9_7f4a_7c15);
        let mut z = self.0;
        z = (z ^ (z >> 30)).wrapping_mul(0xbf58_476d_1ce4_e5b9);
        z = (z ^ (z >> 27)).wrapping_mul(0x94d0_49bb_1331_11eb);
        z ^ (z >> 31)
    }
    pub fn below(&mut self, n: usize) -> usize {
        (self.next() % (n as u64)) as usize
    }
}

#[derive(Clone, Debug)]
pub enum Policy {
    /// follow the thread ids (1-based); afterwards lowest-id runnable thread first
    Replay(Vec<usize>),
    Random(u64),
    /// PCT: random priorities, `depth - 1` priority change points among the first `len` steps
    Pct { seed: u64, depth: usize, len: usize },
    /// no baton at all: the OS schedules; hooks inject random yields
    Free(u64),
}

pub struct State {
    turn: Option<usize>,
    parked: Vec<Option<(&'static str, usize)>>,
    finished: Vec<bool>,
    abandoned: bool,
    /// [t, label, result-of-the-op-if-it-completed-in-this-step]
    pub steps: Vec<(usize, &'static str, i64)>,
    /// call / ret records in the order they happened
    pub events: Vec<serde_json::Value>,
}

pub struct Shared {
    m: Mutex<State>,
    cv: Condvar,
    pub free: bool,
    pub seq: AtomicU64,
}

thread_local! {
    static CUR: RefCell<Option<(usize, Arc<Shared>)>> = const { RefCell::new(None) };
    /// `arena.get_load_bucket` is a step of its own only when the operation IS a get/lookup; the reads that
    /// hashbrown's lookup / rehash closures do through `AsInterned::borrow` belong to the enclosing shard step.
    static SUPPRESS_GET: std::cell::Cell<bool> = const { std::cell::Cell::new(false) };
    static FREE_RNG: RefCell<Rng> = const { RefCell::new(Rng(1)) };
    /// per-thread event log for free mode: (seq, record)
    static FREE_LOG: RefCell<Vec<(u64, serde_json::Value)>> = const { RefCell::new(Vec::new()) };
}

/// The function installed into `intern::verif_hooks`.
pub fn suppress_get(on: bool) {
    SUPPRESS_GET.with(|c| c.set(on));
}

pub fn hook(label: &'static str, arg: usize) {
    if label == "arena.get_load_bucket" && SUPPRESS_GET.with(|c| c.get()) {
        return;
    }
    let cur = CUR.with(|c| c.borrow().clone());
    if let Some((t, sh)) = cur {
        if sh.free {
            free_jitter();
        } else {
            sh.park(t, label, arg);
        }
    }
}

fn free_jitter() {
    let r = FREE_RNG.with(|r| r.borrow_mut().next());
    match r & 7 {
        0 => std::thread::yield_now(),
        1 => {
            for _ in 0..((r >> 8) & 127) {
                std::hint::spin_loop();
            }
        }
        _ => {}
    }
}

impl Shared {
    pub fn new(nthreads: usize, free: bool) -> Arc<Shared> {
        Arc::new(Shared {
            m: Mutex::new(State {
                turn: None,
                parked: vec![None; nthreads],
                finished: vec![false; nthreads],
                abandoned: false,
                steps: Vec::new(),
                events: Vec::new(),
            }),
            cv: Condvar::new(),
            free,
            seq: AtomicU64::new(0),
        })
    }

    fn park(&self, t: usize, label: &'static str, arg: usize) {
        let mut st = self.m.lock().unwrap();
        st.parked[t - 1] = Some((label, arg));
        st.turn = None;
        self.cv.notify_all();
        loop {
            if st.turn == Some(t) && !st.abandoned {
                break;
            }
            st = self.cv.wait(st).unwrap();
        }
        st.parked[t - 1] = None;
    }

    /// Record a call/ret event from the running worker.  `res` (for ret events) is also attached to the
    /// step that is being executed.
    pub fn event(&self, ev: serde_json::Value, res: Option<i64>) {
        if self.free {
            let s = self.seq.fetch_add(1, Ordering::SeqCst);
            FREE_LOG.with(|l| l.borrow_mut().push((s, ev)));
            return;
        }
        let mut st = self.m.lock().unwrap();
        st.events.push(ev);
        if let (Some(r), Some(last)) = (res, st.steps.last_mut()) {
            last.2 = r;
        }
    }

    pub fn with_state<R>(&self, f: impl FnOnce(&mut State) -> R) -> R {
        f(&mut self.m.lock().unwrap())
    }
}

/// Body wrapper for worker thread `t` (1-based).
pub fn worker<F: FnOnce()>(t: usize, sh: Arc<Shared>, seed: u64, body: F) {
    CUR.with(|c| *c.borrow_mut() = Some((t, sh.clone())));
    FREE_RNG.with(|r| *r.borrow_mut() = Rng::new(seed ^ (t as u64) << 32));
    FREE_LOG.with(|l| l.borrow_mut().clear());
    body();
    CUR.with(|c| *c.borrow_mut() = None);
    let mut st = sh.m.lock().unwrap();
    if sh.free {
        let mine = FREE_LOG.with(|l| std::mem::take(&mut *l.borrow_mut()));
        for (s, mut ev) in mine {
            ev["seq"] = serde_json::json!(s);
            st.events.push(ev);
        }
    }
    st.finished[t - 1] = true;
    st.turn = None;
    sh.cv.notify_all();
}

/// A harness-level scheduling point (start of an op).
pub fn op_call() {
    hook("op.call", 0);
}

#[derive(Default)]
struct Locks {
    mutex: HashMap<usize, usize>,
    wlock: HashMap<usize, usize>,
    once: HashMap<usize, usize>,
    pending_once: HashMap<usize, usize>,
}

impl Locks {
    fn blocked(&self, t: usize, label: &str, arg: usize) -> bool {
        let other = |m: &HashMap<usize, usize>| matches!(m.get(&arg), Some(h) if *h != t);
        match label {
            "arena.lock_mutex" => other(&self.mutex),
            "shard.write_lock" | "shard.read_lock" | "shard.get_read_lock" | "shard.unchecked_insert" => {
                other(&self.wlock)
            }
            "intern.shards_init" => other(&self.once),
            _ => false,
        }
    }
    fn on_resume(&mut self, t: usize, label: &str, arg: usize) {
        match label {
            "op.call" => self.release_all(t),
            "arena.lock_mutex" => {
                self.mutex.insert(arg, t);
            }
            "arena.unlock" => self.mutex.retain(|_, h| *h != t),
            "shard.try_write" => {
                // try_write succeeds iff nobody holds the lock (read locks are never held across a park)
                self.wlock.entry(arg).or_insert(t);
            }
            "shard.write_lock" => {
                self.wlock.insert(arg, t);
            }
            "shard.unlock_found" | "intern.unlock" => self.wlock.retain(|_, h| *h != t),
            "intern.shards_init" => {
                self.pending_once.insert(t, arg);
            }
            "intern.shards_init_done" => self.once.retain(|_, h| *h != t),
            _ => {}
        }
    }
    fn on_park(&mut self, t: usize, label: &str) {
        if label == "intern.shards_init_enter" {
            if let Some(a) = self.pending_once.get(&t) {
                self.once.insert(*a, t);
            }
        }
    }
    fn release_all(&mut self, t: usize) {
        self.mutex.retain(|_, h| *h != t);
        self.wlock.retain(|_, h| *h != t);
        self.once.retain(|_, h| *h != t);
    }
}

pub struct Outcome {
    pub deadlock: bool,
    pub hang: bool,
    /// schedule entries that named a thread that could not run
    pub skipped: usize,
}

/// Drive the workers until all of them have finished.  Must be called by the controlling thread after the
/// workers were spawned.
pub fn control(sh: &Arc<Shared>, policy: &Policy) -> Outcome {
    let n = sh.with_state(|s| s.parked.len());
    let mut out = Outcome { deadlock: false, hang: false, skipped: 0 };
    if sh.free {
        // only wait for completion
        let mut st = sh.m.lock().unwrap();
        let mut waited = 0;
        while !st.finished.iter().all(|f| *f) {
            let (g, to) = sh.cv.wait_timeout(st, Duration::from_millis(200)).unwrap();
            st = g;
            if to.timed_out() {
                waited += 1;
                if waited > 100 {
                    out.hang = true;
                    st.abandoned = true;
                    break;
                }
            }
        }
        st.events.sort_by_key(|e| e["seq"].as_u64().unwrap_or(0));
        return out;
    }
    let mut locks = Locks::default();
    let mut sched_pos = 0usize;
    let mut rng = Rng::new(match policy {
        Policy::Random(s) | Policy::Free(s) => *s,
        Policy::Pct { seed, .. } => *seed,
        _ => 0,
    });
    // PCT state
    let mut prio: Vec<usize> = (0..n).collect();
    let mut change_points: Vec<usize> = Vec::new();
    if let Policy::Pct { depth, len, .. } = policy {
        for i in (1..n).rev() {
            let j = rng.below(i + 1);
            prio.swap(i, j);
        }
        // prio[t-1] larger = runs first; shift up so change points can go below everybody
        for p in prio.iter_mut() {
            *p += *depth;
        }
        for _ in 1..*depth {
            change_points.push(rng.below((*len).max(1)));
        }
    }
    let mut nsteps = 0usize;
    let mut last_ran: Option<usize> = None;
    loop {
        let mut st = sh.m.lock().unwrap();
        let mut waited = 0;
        loop {
            let settled = st.turn.is_none() && (0..n).all(|i| st.finished[i] || st.parked[i].is_some());
            if settled {
                break;
            }
            let (g, to) = sh.cv.wait_timeout(st, Duration::from_millis(500)).unwrap();
            st = g;
            if to.timed_out() {
                waited += 1;
                if waited > 20 {
                    // a thread neither parked nor finished for 10 s: it blocks inside the code under test
                    out.hang = true;
                    st.abandoned = true;
                    return out;
                }
            }
        }
        if let Some(t) = last_ran {
            if let Some((l, _)) = st.parked[t - 1] {
                locks.on_park(t, l);
            } else {
                locks.release_all(t);
            }
        }
        if st.finished.iter().all(|f| *f) {
            return out;
        }
        let runnable: Vec<usize> = (1..=n)
            .filter(|t| match st.parked[*t - 1] {
                Some((l, a)) => !st.finished[*t - 1] && !locks.blocked(*t, l, a),
                None => false,
            })
            .collect();
        if runnable.is_empty() {
            out.deadlock = true;
            st.abandoned = true;
            return out;
        }
        let t = match policy {
            Policy::Replay(s) => {
                let mut pick = None;
                while sched_pos < s.len() {
                    let c = s[sched_pos];
                    sched_pos += 1;
                    if runnable.contains(&c) {
                        pick = Some(c);
                        break;
                    }
                    out.skipped += 1;
                }
                pick.unwrap_or(runnable[0])
            }
            Policy::Random(_) | Policy::Free(_) => runnable[rng.below(runnable.len())],
            Policy::Pct { depth, .. } => {
                let t = *runnable.iter().max_by_key(|t| prio[**t - 1]).unwrap();
                if let Some(k) = change_points.iter().position(|c| *c == nsteps) {
                    // lower the priority of the thread that would run to below everybody (distinct values)
                    prio[t - 1] = depth.saturating_sub(1 + k);
                    *runnable.iter().max_by_key(|t| prio[**t - 1]).unwrap()
                } else {
                    t
                }
            }
        };
        let (l, a) = st.parked[t - 1].unwrap();
        locks.on_resume(t, l, a);
        st.steps.push((t, l, NO_RES));
        st.turn = Some(t);
        last_ran = Some(t);
        nsteps += 1;
        drop(st);
        sh.cv.notify_all();
    }
}
