//! C06: drive a fresh `AtomicArena` with per-thread programs under the baton scheduler and project what
//! happened to ndjson.  No judgement here: ArenaTrace.tla evaluates the property on the records.

use std::panic::{catch_unwind, AssertUnwindSafe};
use std::sync::atomic::{AtomicU32, AtomicU64, AtomicUsize, Ordering};
use std::sync::{Arc, Barrier};

use intern::verif_exports::{AtomicArena, Ref};
use serde_json::{json, Value};

use crate::sched::{self, Policy, Shared};

pub const MAXV: usize = 4096;
pub const UNINIT: i64 = -1;
pub const NONE: i64 = -2;
pub const PANIC: i64 = -4;

static NONCE: AtomicU64 = AtomicU64::new(0);
static DROPS: [AtomicU32; MAXV] = [const { AtomicU32::new(0) }; MAXV];
static OTHER_DROPS: AtomicU32 = AtomicU32::new(0);

/// Bucket allocations are recognised by the counting allocator through their size: capacity * 24 bytes.
pub static COUNTING: AtomicUsize = AtomicUsize::new(0);
pub static BUCKET_ALLOCS: AtomicUsize = AtomicUsize::new(0);
pub static BUCKET_FREES: AtomicUsize = AtomicUsize::new(0);
pub fn is_bucket_layout(size: usize, align: usize) -> bool {
    align == 8 && matches!(size, 3072 | 6144 | 12288 | 24576)
}

/// Element with a drop counter.  Plain data, so that a read of a slot that was never written (possible only
/// if the arena is broken) yields a recognisable non-value instead of a wild pointer.
#[repr(C)]
pub struct Elem {
    v: u64,
    nonce: u64,
    pad: u64,
}

impl Elem {
    fn new(v: u64) -> Elem {
        Elem { v, nonce: NONCE.load(Ordering::Relaxed), pad: !v }
    }
    fn project(&self) -> i64 {
        let (v, nonce, pad) = unsafe {
            (
                std::ptr::read_volatile(&self.v),
                std::ptr::read_volatile(&self.nonce),
                std::ptr::read_volatile(&self.pad),
            )
        };
        if nonce == NONCE.load(Ordering::Relaxed) && pad == !v && (v as usize) < MAXV {
            v as i64
        } else {
            UNINIT
        }
    }
}

impl Drop for Elem {
    fn drop(&mut self) {
        let p = self.project();
        if p >= 0 {
            DROPS[p as usize].fetch_add(1, Ordering::Relaxed);
        } else {
            OTHER_DROPS.fetch_add(1, Ordering::Relaxed);
        }
    }
}

type Arena = AtomicArena<'static, Elem>;
type R = Ref<'static, Elem>;

fn biased(r: R) -> i64 {
    r.index() as i64 + 128
}

#[derive(Clone)]
pub struct Op {
    pub op: String,
    pub x: i64,
}

pub fn parse_prog(v: &Value) -> Vec<Vec<Op>> {
    v.as_array()
        .unwrap()
        .iter()
        .map(|th| {
            th.as_array()
                .unwrap()
                .iter()
                .map(|o| Op { op: o["op"].as_str().unwrap().to_string(), x: o["x"].as_i64().unwrap() })
                .collect()
        })
        .collect()
}

/// Run one job; returns the records (first the layer-A records, last the "steps" record).
pub fn run(job: &Value, policy: Policy) -> Vec<Value> {
    let id = job["id"].as_i64().unwrap();
    let prefill = job["prefill"].as_u64().unwrap() as usize;
    let prog = parse_prog(&job["prog"]);
    let n = prog.len();
    let free = matches!(policy, Policy::Free(_));
    let seed = job["seed"].as_u64().unwrap_or(0);

    NONCE.store(id as u64 + 1, Ordering::SeqCst);
    for d in DROPS.iter() {
        d.store(0, Ordering::Relaxed);
    }
    OTHER_DROPS.store(0, Ordering::Relaxed);
    BUCKET_ALLOCS.store(0, Ordering::SeqCst);
    BUCKET_FREES.store(0, Ordering::SeqCst);
    COUNTING.store(1, Ordering::SeqCst);

    let mut out: Vec<Value> = Vec::new();
    let arena: Arc<Arena> = Arc::new(AtomicArena::new());
    // sequential prefill (no hook installed for this thread: CUR is None)
    let mut pre_refs: Vec<R> = Vec::new();
    for i in 0..prefill {
        pre_refs.push(arena.add(Elem::new(1000 + i as u64)));
    }
    let consecutive = pre_refs.iter().enumerate().all(|(i, r)| biased(*r) == 128 + i as i64);
    out.push(json!({"e":"reset","run":id,"kind":"arena","pre":{"n":prefill,"first":128},
                    "pre_consecutive": if consecutive {1} else {0}, "threads": n}));

    // last completed add per thread (0 = none), as raw biased index; refs by biased index
    let last_ref: Arc<Vec<AtomicU64>> = Arc::new((0..=n).map(|_| AtomicU64::new(0)).collect());
    if prefill > 0 {
        last_ref[0].store(127 + prefill as u64, Ordering::SeqCst);
    }
    let sh = Shared::new(n, free);
    let barrier = Arc::new(Barrier::new(n));
    let mut handles = Vec::new();
    for (ti, ops) in prog.iter().enumerate() {
        let t = ti + 1;
        let (sh2, arena2, ops2, last2, bar2) = (sh.clone(), arena.clone(), ops.clone(), last_ref.clone(), barrier.clone());
        handles.push(std::thread::spawn(move || {
            let sh3 = sh2.clone();
            sched::worker(t, sh2, seed, move || {
                if sh3.free {
                    bar2.wait();
                }
                for op in ops2.iter() {
                    sched::op_call();
                    match op.op.as_str() {
                        "add" => {
                            sh3.event(json!({"e":"call","t":t,"op":"add","x":op.x}), None);
                            let r = catch_unwind(AssertUnwindSafe(|| arena2.add(Elem::new(op.x as u64))));
                            let res = match r {
                                Ok(r) => {
                                    last2[t].store(biased(r) as u64, Ordering::SeqCst);
                                    biased(r)
                                }
                                Err(_) => PANIC,
                            };
                            sh3.event(json!({"e":"ret","t":t,"op":"add","x":op.x,"res":res}), Some(res));
                        }
                        "get" => {
                            let b = last2[op.x as usize].load(Ordering::SeqCst);
                            if b == 0 {
                                sh3.event(json!({"e":"ret","t":t,"op":"getnone","x":0,"res":NONE}), Some(NONE));
                            } else {
                                sh3.event(json!({"e":"call","t":t,"op":"get","x":b}), None);
                                let r: R = unsafe { Ref::from_index(b as u32 - 128) };
                                let res = catch_unwind(AssertUnwindSafe(|| arena2.get(r).project())).unwrap_or(PANIC);
                                sh3.event(json!({"e":"ret","t":t,"op":"get","x":b,"res":res}), Some(res));
                            }
                        }
                        "len" => {
                            sh3.event(json!({"e":"call","t":t,"op":"len","x":0}), None);
                            let res = catch_unwind(AssertUnwindSafe(|| arena2.len() as i64)).unwrap_or(PANIC);
                            sh3.event(json!({"e":"ret","t":t,"op":"len","x":0,"res":res}), Some(res));
                        }
                        other => panic!("unknown op {other}"),
                    }
                }
            });
        }));
    }
    let outcome = sched::control(&sh, &policy);
    let stuck = outcome.deadlock || outcome.hang;
    if !stuck {
        for h in handles {
            let _ = h.join();
        }
    }
    let (steps, events) = sh.with_state(|s| (s.steps.clone(), std::mem::take(&mut s.events)));
    let mut added: Vec<(i64, i64)> = Vec::new(); // (ref, v) of completed adds
    for mut e in events {
        if e["e"] == "ret" && e["op"] == "add" && e["res"].as_i64().unwrap() >= 0 {
            added.push((e["res"].as_i64().unwrap(), e["x"].as_i64().unwrap()));
        }
        if let Some(o) = e.as_object_mut() {
            o.remove("seq");
        }
        out.push(e);
    }
    if stuck {
        out.push(json!({"e":"stuck","deadlock": outcome.deadlock as u8, "hang": outcome.hang as u8}));
        // the workers are parked for ever and still share the arena: leak it
        std::mem::forget(arena);
    } else {
        // quiescence
        out.push(json!({"e":"quiesce","len": arena.len()}));
        let mut reads: Vec<Value> = Vec::new();
        let mut refs: Vec<i64> = added.iter().map(|a| a.0).collect();
        if prefill > 0 {
            refs.push(128);
            refs.push(127 + prefill as i64);
        }
        refs.sort();
        refs.dedup();
        for b in refs {
            let r: R = unsafe { Ref::from_index(b as u32 - 128) };
            let res = catch_unwind(AssertUnwindSafe(|| arena.get(r).project())).unwrap_or(PANIC);
            reads.push(json!([b, res]));
        }
        out.push(json!({"e":"final","reads":reads}));
        let snap = arena.verif_snapshot();
        let early: u32 = DROPS.iter().map(|d| d.load(Ordering::Relaxed)).sum::<u32>() + OTHER_DROPS.load(Ordering::Relaxed);
        let arena = Arc::try_unwrap(arena).ok().expect("arena still shared");
        let dp = catch_unwind(AssertUnwindSafe(move || drop(arena))).is_err();
        COUNTING.store(0, Ordering::SeqCst);
        let cnt: Vec<Value> = added.iter().map(|(_, v)| json!([v, DROPS[*v as usize].load(Ordering::Relaxed)])).collect();
        let pre_once = (0..prefill).filter(|i| DROPS[1000 + i].load(Ordering::Relaxed) == 1).count();
        let known: u32 = added.iter().map(|(_, v)| DROPS[*v as usize].load(Ordering::Relaxed)).sum::<u32>()
            + (0..prefill).map(|i| DROPS[1000 + i].load(Ordering::Relaxed)).sum::<u32>();
        let total: u32 = DROPS.iter().map(|d| d.load(Ordering::Relaxed)).sum::<u32>() + OTHER_DROPS.load(Ordering::Relaxed);
        out.push(json!({"e":"drop","early":early,"cnt":cnt,"preOnce":pre_once,"other": total - known,
                        "panic": dp as u8,
                        "allocs": BUCKET_ALLOCS.load(Ordering::SeqCst), "frees": BUCKET_FREES.load(Ordering::SeqCst),
                        "snap_next": snap.0, "snap_buckets": snap.1}));
    }
    COUNTING.store(0, Ordering::SeqCst);
    let steps: Vec<Value> = steps.iter().map(|(t, l, r)| json!([t, l, r])).collect();
    out.push(json!({"e":"steps","run":id,"steps":steps,"skipped":outcome.skipped}));
    out
}
