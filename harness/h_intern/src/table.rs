//! C05 (schedules): drive a FRESH `InternTable` per run with per-thread programs under the baton scheduler.
//!
//! Fresh table per run: `InternTable::new()` is a public const fn, but `intern`/`get` are only reachable through
//! `InternId::table()`, which `intern_struct!` binds to a per-type static.  The harness therefore implements
//! `InternId` by hand for its own id type (exactly the boilerplate the macro generates) with `table()` returning
//! the table installed for the current run; the table is boxed, leaked for the duration of the run (`&'static`)
//! and dropped afterwards.  The `intern_struct!` macro itself is exercised by the serde / string jobs.

use std::borrow::Borrow;
use std::hash::{Hash, Hasher};
use std::panic::{catch_unwind, AssertUnwindSafe};
use std::sync::atomic::{AtomicI64, AtomicPtr, AtomicU64, Ordering};
use std::sync::{Arc, Barrier, Mutex};

use intern::intern::{InternTable, Ref};
use intern::{AsInterned, InternId};
use serde_json::{json, Value};

use crate::arena::{parse_prog, NONE, PANIC, UNINIT};
use crate::sched::{self, Policy, Shared};

static NONCE: AtomicU64 = AtomicU64::new(0);

/// Interned value: `v` identifies it; `nonce` makes a never-written arena slot recognisable.
#[derive(Debug, Clone)]
pub struct TVal {
    v: u64,
    nonce: u64,
}
impl TVal {
    fn new(v: u64) -> TVal {
        TVal { v, nonce: NONCE.load(Ordering::Relaxed) }
    }
    fn project(&self) -> i64 {
        let (v, n) = unsafe { (std::ptr::read_volatile(&self.v), std::ptr::read_volatile(&self.nonce)) };
        if n == NONCE.load(Ordering::Relaxed) && v < 1_000_000 {
            v as i64
        } else {
            UNINIT
        }
    }
}
impl PartialEq for TVal {
    fn eq(&self, o: &TVal) -> bool {
        self.project() >= 0 && self.project() == o.project()
    }
}
impl Eq for TVal {}
impl Hash for TVal {
    fn hash<H: Hasher>(&self, h: &mut H) {
        // only `v`: the shard of a value must not depend on the run
        h.write_u64(unsafe { std::ptr::read_volatile(&self.v) });
    }
}

type Table = InternTable<TId, TVal>;
static CUR_TABLE: AtomicPtr<Table> = AtomicPtr::new(std::ptr::null_mut());

#[derive(Copy, Clone, PartialEq, Eq, Hash)]
pub struct TId(Ref<TVal>);

impl InternId for TId {
    type Intern = TVal;
    type Lookup = TVal;
    fn table() -> &'static Table {
        unsafe { &*CUR_TABLE.load(Ordering::SeqCst) }
    }
    fn wrap(r: Ref<TVal>) -> Self {
        TId(r)
    }
    fn unwrap(self) -> Ref<TVal> {
        self.0
    }
}
impl Borrow<TVal> for AsInterned<TId> {
    fn borrow(&self) -> &TVal {
        self.0.get()
    }
}

fn install_fresh() {
    let b: Box<Table> = Box::new(InternTable::new());
    CUR_TABLE.store(Box::into_raw(b), Ordering::SeqCst);
}
fn uninstall(drop_it: bool) -> bool {
    let p = CUR_TABLE.swap(std::ptr::null_mut(), Ordering::SeqCst);
    if drop_it && !p.is_null() {
        return catch_unwind(AssertUnwindSafe(|| drop(unsafe { Box::from_raw(p) }))).is_err();
    }
    false
}

/// Which shard lock does each candidate value use?  (observed through the hook argument of "shard.try_write")
static PROBE: Mutex<Option<usize>> = Mutex::new(None);
fn probe_hook(label: &'static str, arg: usize) {
    if label == "shard.try_write" {
        *PROBE.lock().unwrap() = Some(arg);
    }
}
pub fn run_shardmap(job: &Value) -> Vec<Value> {
    let n = job["candidates"].as_u64().unwrap_or(300);
    NONCE.store(u64::MAX - 1, Ordering::SeqCst);
    install_fresh();
    intern::verif_hooks::install(Some(probe_hook));
    let mut out = Vec::new();
    let mut classes: Vec<usize> = Vec::new();
    for v in 1..=n {
        *PROBE.lock().unwrap() = None;
        let _ = TId::intern(TVal::new(v));
        let a = PROBE.lock().unwrap().unwrap_or(0);
        let c = match classes.iter().position(|x| *x == a) {
            Some(i) => i,
            None => {
                classes.push(a);
                classes.len() - 1
            }
        };
        out.push(json!([v, c]));
    }
    intern::verif_hooks::install(Some(sched::hook));
    uninstall(true);
    vec![json!({"e":"shardmap","map":out})]
}

pub fn run(job: &Value, policy: Policy) -> Vec<Value> {
    let id = job["id"].as_i64().unwrap();
    let prefill = job["prefill"].as_u64().unwrap() as usize;
    let prog = parse_prog(&job["prog"]);
    let n = prog.len();
    let free = matches!(policy, Policy::Free(_));
    let seed = job["seed"].as_u64().unwrap_or(0);
    NONCE.store(id as u64 + 1, Ordering::SeqCst);
    install_fresh();
    let mut out: Vec<Value> = Vec::new();
    let mut pre_ok = true;
    for i in 0..prefill {
        let r = TId::intern(TVal::new(1000 + i as u64));
        pre_ok &= r.index() as usize == i;
    }
    out.push(json!({"e":"reset","run":id,"kind":"table","pre":{"n":prefill},"pre_ok": pre_ok as u8,"threads":n}));

    // id (index) of the latest completed intern per thread, -1 = none
    let last_id: Arc<Vec<AtomicI64>> = Arc::new((0..=n).map(|_| AtomicI64::new(-1)).collect());
    if prefill > 0 {
        last_id[0].store(prefill as i64 - 1, Ordering::SeqCst);
    }
    let sh = Shared::new(n, free);
    let barrier = Arc::new(Barrier::new(n));
    let mut handles = Vec::new();
    for (ti, ops) in prog.iter().enumerate() {
        let t = ti + 1;
        let (sh2, ops2, last2, bar2) = (sh.clone(), ops.clone(), last_id.clone(), barrier.clone());
        handles.push(std::thread::spawn(move || {
            let sh3 = sh2.clone();
            sched::worker(t, sh2, seed, move || {
                if sh3.free {
                    bar2.wait();
                }
                sched::suppress_get(true);
                for op in ops2.iter() {
                    sched::op_call();
                    match op.op.as_str() {
                        "intern" => {
                            sh3.event(json!({"e":"call","t":t,"op":"intern","x":op.x}), None);
                            let r = catch_unwind(AssertUnwindSafe(|| TId::intern(TVal::new(op.x as u64)).index() as i64));
                            let res = match r {
                                Ok(i) => {
                                    last2[t].store(i, Ordering::SeqCst);
                                    i
                                }
                                Err(_) => PANIC,
                            };
                            sh3.event(json!({"e":"ret","t":t,"op":"intern","x":op.x,"res":res}), Some(res));
                        }
                        "getint" => {
                            sh3.event(json!({"e":"call","t":t,"op":"getint","x":op.x}), None);
                            let r = catch_unwind(AssertUnwindSafe(|| {
                                TId::get_interned(&TVal::new(op.x as u64)).map(|i| i.index() as i64).unwrap_or(NONE)
                            }));
                            let res = r.unwrap_or(PANIC);
                            sh3.event(json!({"e":"ret","t":t,"op":"getint","x":op.x,"res":res}), Some(res));
                        }
                        "lookup" => {
                            let i = last2[op.x as usize].load(Ordering::SeqCst);
                            if i < 0 {
                                sh3.event(json!({"e":"ret","t":t,"op":"lookupnone","x":0,"res":NONE}), Some(NONE));
                            } else {
                                sh3.event(json!({"e":"call","t":t,"op":"lookup","x":i}), None);
                                let idv: TId = unsafe { TId::from_index(i as u32) };
                                sched::suppress_get(false);
                                let res = catch_unwind(AssertUnwindSafe(|| idv.get().project())).unwrap_or(PANIC);
                                sched::suppress_get(true);
                                sh3.event(json!({"e":"ret","t":t,"op":"lookup","x":i,"res":res}), Some(res));
                            }
                        }
                        "len" => {
                            sh3.event(json!({"e":"call","t":t,"op":"len","x":0}), None);
                            let res = catch_unwind(AssertUnwindSafe(|| TId::table().len() as i64)).unwrap_or(PANIC);
                            sh3.event(json!({"e":"ret","t":t,"op":"len","x":0,"res":res}), Some(res));
                        }
                        other => panic!("unknown op {other}"),
                    }
                }
                sched::suppress_get(false);
            });
        }));
    }
    let outcome = sched::control(&sh, &policy);
    let stuck = outcome.deadlock || outcome.hang;
    if !stuck {
        for h in handles {
            let _ = h.join();
        }
    }
    let (steps, events) = sh.with_state(|s| (s.steps.clone(), std::mem::take(&mut s.events)));
    let mut ids: Vec<i64> = Vec::new();
    let mut vals: Vec<i64> = Vec::new();
    for mut e in events {
        if e["e"] == "ret" && (e["op"] == "intern" || e["op"] == "getint") && e["res"].as_i64().unwrap() >= 0 {
            ids.push(e["res"].as_i64().unwrap());
            vals.push(e["x"].as_i64().unwrap());
        }
        if let Some(o) = e.as_object_mut() {
            o.remove("seq");
        }
        out.push(e);
    }
    if stuck {
        out.push(json!({"e":"stuck","deadlock": outcome.deadlock as u8, "hang": outcome.hang as u8}));
        uninstall(false);
    } else {
        // quiescence: len, then (main thread = 0) intern every value again and look every id up
        out.push(json!({"e":"quiesce","len": TId::table().len()}));
        vals.sort();
        vals.dedup();
        for v in vals {
            out.push(json!({"e":"call","t":0,"op":"intern","x":v}));
            let res = catch_unwind(AssertUnwindSafe(|| TId::intern(TVal::new(v as u64)).index() as i64)).unwrap_or(PANIC);
            if res >= 0 {
                ids.push(res);
            }
            out.push(json!({"e":"ret","t":0,"op":"intern","x":v,"res":res}));
        }
        if prefill > 0 {
            ids.push(0);
            ids.push(prefill as i64 - 1);
        }
        ids.sort();
        ids.dedup();
        let len_now = TId::table().len() as i64;
        let mut reads: Vec<Value> = Vec::new();
        for i in ids {
            if i >= len_now {
                reads.push(json!([i, UNINIT])); // not a valid index of this table: nothing to read
                continue;
            }
            let idv: TId = unsafe { TId::from_index(i as u32) };
            let res = catch_unwind(AssertUnwindSafe(|| idv.get().project())).unwrap_or(PANIC);
            reads.push(json!([i, res]));
        }
        out.push(json!({"e":"final","reads":reads,"len":len_now}));
        let dp = uninstall(true);
        out.push(json!({"e":"dropped","panic": dp as u8}));
    }
    let steps: Vec<Value> = steps.iter().map(|(t, l, r)| json!([t, l, r])).collect();
    out.push(json!({"e":"steps","run":id,"steps":steps,"skipped":outcome.skipped}));
    out
}
