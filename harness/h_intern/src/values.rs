//! C05 (sequential parts): real serde round trips with intern sharing through a custom `intern_struct!` type
//! whose values contain ids, and interned strings / byte strings / paths of the enumerated classes.
//! Projections only; InternValuesTrace.tla judges.

use std::ffi::OsStr;
use std::os::unix::ffi::OsStrExt;
use std::panic::{catch_unwind, AssertUnwindSafe};
use std::path::Path;

use intern::intern_struct;
use intern::path::PathId;
use intern::string::{self, BytesId, StringId};
use intern::{InternId, InternSerdes, WithIntern};
use serde_derive::{Deserialize, Serialize};
use serde_json::{json, Value};

#[derive(Debug, PartialEq, Eq, Hash, Serialize, Deserialize)]
pub struct Node {
    tag: u64,
    name: StringId,
    kids: Vec<NodeId>,
}

intern_struct! {
    pub struct NodeId = Intern<Node> {
        serdes("InternSerdes<NodeId>");
    }
}

fn name_text(base: u64, n: u64) -> String {
    // name 1: inline small; name 2: heap large (SmallBytes inline limit is 22 bytes)
    if n % 2 == 1 {
        format!("n{}-{}", base, n)
    } else {
        format!("name-{}-{}-{}", base, n, "x".repeat(24))
    }
}

/// Project the serde_json form of a document into the abstract token stream of InternSerdes.tla.
fn project_doc(v: &Value, base: u64, names: &[String], toks: &mut Vec<Value>) {
    for e in v.as_array().map(|a| a.as_slice()).unwrap_or(&[]) {
        project_id(e, base, names, toks);
    }
}
fn project_id(e: &Value, base: u64, names: &[String], toks: &mut Vec<Value>) {
    if let Some(i) = e.get("Id") {
        toks.push(json!({"t":"I","x":i.as_i64().unwrap_or(-1)}));
    } else if let Some(val) = e.get("Value") {
        let tag = val["tag"].as_u64().unwrap_or(0);
        let k = tag.wrapping_sub(base * 10) as i64;
        toks.push(json!({"t":"V","x":k}));
        // name: StringId -> BytesId -> InternSerdes<BytesId> -> {"Value":[bytes]} | {"Id":n}
        let nm = &val["name"];
        if let Some(i) = nm.get("Id") {
            toks.push(json!({"t":"SI","x":i.as_i64().unwrap_or(-1)}));
        } else {
            let bytes: Vec<u8> = nm["Value"].as_array().map(|a| a.iter().map(|b| b.as_u64().unwrap_or(0) as u8).collect()).unwrap_or_default();
            let s = String::from_utf8_lossy(&bytes).to_string();
            let n = names.iter().position(|x| *x == s).map(|p| p as i64 + 1).unwrap_or(0);
            toks.push(json!({"t":"SV","x":n}));
        }
        project_doc(&val["kids"], base, names, toks);
        toks.push(json!({"t":"E","x":k}));
    } else {
        toks.push(json!({"t":"?","x":0}));
    }
}

pub fn run_serdes(job: &Value) -> Vec<Value> {
    let id = job["id"].as_i64().unwrap();
    let base = id as u64 + 1_000;
    let w = &job["world"];
    let n = w["n"].as_u64().unwrap() as usize;
    let max_name = w["name"].as_array().unwrap().iter().map(|x| x.as_u64().unwrap()).max().unwrap_or(1);
    let names: Vec<String> = (1..=max_name).map(|i| name_text(base, i)).collect();
    let mut ids: Vec<NodeId> = Vec::new();
    for k in 1..=n {
        let nm = w["name"][k - 1].as_u64().unwrap();
        let kids: Vec<NodeId> = w["kids"][k - 1].as_array().unwrap().iter().map(|x| ids[x.as_u64().unwrap() as usize - 1]).collect();
        ids.push(NodeId::intern(Node { tag: base * 10 + k as u64, name: string::intern(names[nm as usize - 1].as_str()), kids }));
    }
    let abstract_of = |x: NodeId| -> i64 { ids.iter().position(|y| *y == x).map(|p| p as i64 + 1).unwrap_or(0) };
    let doc_abs: Vec<i64> = job["doc"].as_array().unwrap().iter().map(|x| x.as_i64().unwrap()).collect();
    let doc: Vec<NodeId> = doc_abs.iter().map(|k| ids[*k as usize - 1]).collect();
    let mut out = Vec::new();
    // serde_json
    {
        // the text exactly as the serializer wrote it (a serde_json::Value would re-order the object keys,
        // and the back-reference numbering depends on the order in which the fields are read)
        let ser = catch_unwind(AssertUnwindSafe(|| serde_json::to_string(&WithIntern(&doc)).ok())).ok().flatten();
        let mut toks = Vec::new();
        let (back, ok, equal) = match &ser {
            Some(text) => {
                let v: Value = serde_json::from_str(text).unwrap_or(Value::Null);
                project_doc(&v, base, &names, &mut toks);
                let de = catch_unwind(AssertUnwindSafe(|| {
                    let r = WithIntern::strip(serde_json::from_str::<WithIntern<Vec<NodeId>>>(&text));
                    if let Err(e) = &r {
                        if std::env::var("H_INTERN_DEBUG").is_ok() {
                            eprintln!("json de error: {e}\n{text}");
                        }
                    }
                    r.ok()
                }))
                .ok()
                .flatten();
                match de {
                    Some(b) => (b.iter().map(|x| abstract_of(*x)).collect::<Vec<_>>(), 1, (b == doc) as u8),
                    None => (vec![], 0, 0),
                }
            }
            None => (vec![], 0, 0),
        };
        out.push(json!({"e":"serdes","run":id,"fmt":"json","doc":doc_abs,"toks":toks,"back":back,"ok":ok,"equal":equal}));
    }
    // bincode
    {
        let ser = catch_unwind(AssertUnwindSafe(|| bincode::serialize(&WithIntern(&doc)).ok())).ok().flatten();
        let (back, ok, equal) = match &ser {
            Some(bytes) => {
                let de = catch_unwind(AssertUnwindSafe(|| WithIntern::strip(bincode::deserialize::<WithIntern<Vec<NodeId>>>(bytes)).ok()))
                    .ok()
                    .flatten();
                match de {
                    Some(b) => (b.iter().map(|x| abstract_of(*x)).collect::<Vec<_>>(), 1, (b == doc) as u8),
                    None => (vec![], 0, 0),
                }
            }
            None => (vec![], 0, 0),
        };
        out.push(json!({"e":"serdes","run":id,"fmt":"bincode","doc":doc_abs,"toks":[],"back":back,"ok":ok,"equal":equal,
                        "size": ser.map(|b| b.len()).unwrap_or(0)}));
    }
    out
}

fn bytes_of(v: &Value) -> Vec<u8> {
    v.as_array().unwrap().iter().map(|b| b.as_u64().unwrap() as u8).collect()
}
fn jbytes(b: &[u8]) -> Value {
    Value::Array(b.iter().map(|x| json!(*x)).collect())
}
fn ord(o: std::cmp::Ordering) -> i64 {
    match o {
        std::cmp::Ordering::Less => -1,
        std::cmp::Ordering::Equal => 0,
        std::cmp::Ordering::Greater => 1,
    }
}
fn comps(p: &Path) -> Value {
    Value::Array(p.iter().map(|c| jbytes(c.as_bytes())).collect())
}

/// serde round trip of `doc ++ doc` (every value twice: back references) in both formats
fn rt<T, F>(doc: &[T], proj: F) -> Vec<Value>
where
    T: Copy + serde::Serialize + for<'a> serde::Deserialize<'a>,
    F: Fn(T) -> Value,
{
    let twice: Vec<T> = doc.iter().chain(doc.iter()).copied().collect();
    let mut out = Vec::new();
    let j = catch_unwind(AssertUnwindSafe(|| {
        let s = serde_json::to_string(&WithIntern(&twice)).ok()?;
        WithIntern::strip(serde_json::from_str::<WithIntern<Vec<T>>>(&s)).ok()
    }))
    .ok()
    .flatten();
    out.push(match j {
        Some(b) => json!(["json", 1, b.iter().map(|x| proj(*x)).collect::<Vec<_>>()]),
        None => json!(["json", 0, []]),
    });
    let b = catch_unwind(AssertUnwindSafe(|| {
        let s = bincode::serialize(&WithIntern(&twice)).ok()?;
        WithIntern::strip(bincode::deserialize::<WithIntern<Vec<T>>>(&s)).ok()
    }))
    .ok()
    .flatten();
    out.push(match b {
        Some(b) => json!(["bincode", 1, b.iter().map(|x| proj(*x)).collect::<Vec<_>>()]),
        None => json!(["bincode", 0, []]),
    });
    out
}

pub fn run_strings(job: &Value) -> Vec<Value> {
    let id = job["id"].as_i64().unwrap();
    let kind = job["skind"].as_str().unwrap();
    let vals: Vec<Vec<u8>> = job["vals"].as_array().unwrap().iter().map(bytes_of).collect();
    let n = vals.len();
    let mut pairs = Vec::new();
    let (vals_j, back, again, rtv): (Vec<Value>, Vec<Value>, Vec<Value>, Vec<Value>);
    match kind {
        "string" => {
            let strs: Vec<&str> = vals.iter().map(|b| std::str::from_utf8(b).expect("string case must be UTF-8")).collect();
            let ids: Vec<StringId> = strs.iter().map(|s| string::intern(*s)).collect();
            let ids2: Vec<StringId> = strs.iter().map(|s| string::intern(s.to_string())).collect();
            for i in 0..n {
                for j in 0..n {
                    pairs.push(json!([i + 1, j + 1, (ids[i] == ids[j]) as u8, ord(ids[i].cmp(&ids[j]))]));
                }
            }
            vals_j = vals.iter().map(|b| jbytes(b)).collect();
            back = ids.iter().map(|i| jbytes(i.as_str().as_bytes())).collect();
            again = (0..n).map(|i| json!((ids[i] == ids2[i] && ids[i].index() == ids2[i].index()) as u8)).collect();
            rtv = rt(&ids, |x: StringId| jbytes(x.as_str().as_bytes()));
        }
        "bytes" => {
            let ids: Vec<BytesId> = vals.iter().map(|b| string::intern_bytes(b.as_slice())).collect();
            let ids2: Vec<BytesId> = vals.iter().map(|b| string::intern_bytes(b.clone())).collect();
            for i in 0..n {
                for j in 0..n {
                    pairs.push(json!([i + 1, j + 1, (ids[i] == ids[j]) as u8, ord(ids[i].cmp(&ids[j]))]));
                }
            }
            vals_j = vals.iter().map(|b| jbytes(b)).collect();
            back = ids.iter().map(|i| jbytes(i.as_bytes())).collect();
            again = (0..n).map(|i| json!((ids[i] == ids2[i] && ids[i].index() == ids2[i].index()) as u8)).collect();
            rtv = rt(&ids, |x: BytesId| jbytes(x.as_bytes()));
        }
        "path" => {
            let paths: Vec<&Path> = vals.iter().map(|b| Path::new(OsStr::from_bytes(b))).collect();
            let ids: Vec<PathId> = paths.iter().map(|p| PathId::from(*p)).collect();
            let ids2: Vec<PathId> = paths.iter().map(|p| PathId::intern(None, p.to_path_buf())).collect();
            for i in 0..n {
                for j in 0..n {
                    pairs.push(json!([i + 1, j + 1, (ids[i] == ids[j]) as u8, ord(ids[i].cmp(&ids[j]))]));
                }
            }
            vals_j = paths.iter().map(|p| comps(p)).collect();
            back = ids.iter().map(|i| comps(&i.to_path_buf())).collect();
            again = (0..n).map(|i| json!((ids[i] == ids2[i] && ids[i].index() == ids2[i].index()) as u8)).collect();
            rtv = rt(&ids, |x: PathId| comps(&x.to_path_buf()));
        }
        other => panic!("unknown strings kind {other}"),
    }
    vec![json!({"e":"strings","run":id,"kind":kind,"vals":vals_j,"back":back,"pairs":pairs,"again":again,"rt":rtv})]
}
