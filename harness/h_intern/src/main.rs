//! h_intern: conformance harness for relay-crates/intern (C05, C06).
//!
//!   h_intern run            jobs (ndjson) on stdin -> records (ndjson) on stdout
//!
//! Job kinds: "arena" (C06), "table" (C05 schedules), "serdes" / "strings" (C05 sequential parts).
//! The harness only drives the real crate and projects what it did; every property predicate lives in
//! /verif/spec/intern/*.tla.

mod arena;
mod sched;
mod table;
mod values;

use std::alloc::{GlobalAlloc, Layout, System};
use std::io::{BufRead, Write};
use std::sync::atomic::Ordering;

use serde_json::{json, Value};

struct CountingAlloc;
unsafe impl GlobalAlloc for CountingAlloc {
    unsafe fn alloc(&self, l: Layout) -> *mut u8 {
        if arena::COUNTING.load(Ordering::Relaxed) != 0 && arena::is_bucket_layout(l.size(), l.align()) {
            arena::BUCKET_ALLOCS.fetch_add(1, Ordering::SeqCst);
        }
        System.alloc(l)
    }
    unsafe fn dealloc(&self, p: *mut u8, l: Layout) {
        if arena::COUNTING.load(Ordering::Relaxed) != 0 && arena::is_bucket_layout(l.size(), l.align()) {
            arena::BUCKET_FREES.fetch_add(1, Ordering::SeqCst);
        }
        System.dealloc(p, l)
    }
}
#[global_allocator]
static A: CountingAlloc = CountingAlloc;

fn policy_of(j: &Value) -> sched::Policy {
    let p = &j["policy"];
    let seed = p["seed"].as_u64().unwrap_or(1);
    match p["p"].as_str().unwrap_or("replay") {
        "replay" => sched::Policy::Replay(
            p["sched"].as_array().map(|a| a.iter().map(|x| x.as_u64().unwrap() as usize).collect()).unwrap_or_default(),
        ),
        "random" => sched::Policy::Random(seed),
        "pct" => sched::Policy::Pct {
            seed,
            depth: p["depth"].as_u64().unwrap_or(2) as usize,
            len: p["len"].as_u64().unwrap_or(30) as usize,
        },
        "free" => sched::Policy::Free(seed),
        other => panic!("unknown policy {other}"),
    }
}

fn main() {
    let args: Vec<String> = std::env::args().collect();
    if args.get(1).map(|s| s.as_str()) != Some("run") {
        eprintln!("usage: h_intern run < jobs.ndjson > records.ndjson");
        std::process::exit(2);
    }
    // quiet panics of the code under test (they are data)
    if std::env::var("H_INTERN_DEBUG").is_err() {
        std::panic::set_hook(Box::new(|_| {}));
    }
    intern::verif_hooks::install(Some(sched::hook));
    let stdin = std::io::stdin();
    let stdout = std::io::stdout();
    for line in stdin.lock().lines() {
        let line = line.unwrap();
        if line.trim().is_empty() {
            continue;
        }
        let job: Value = serde_json::from_str(&line).expect("bad job json");
        let id = job["id"].as_i64().unwrap();
        {
            let mut o = stdout.lock();
            writeln!(o, "{}", json!({"e":"begin","run":id})).unwrap();
            o.flush().unwrap();
        }
        let recs = match job["kind"].as_str().unwrap() {
            "arena" => arena::run(&job, policy_of(&job)),
            "table" => table::run(&job, policy_of(&job)),
            "shardmap" => table::run_shardmap(&job),
            "serdes" => values::run_serdes(&job),
            "strings" => values::run_strings(&job),
            other => panic!("unknown job kind {other}"),
        };
        let mut o = stdout.lock();
        for r in recs {
            writeln!(o, "{}", r).unwrap();
        }
        writeln!(o, "{}", json!({"e":"end","run":id})).unwrap();
        o.flush().unwrap();
    }
}
