//! h_lsp: conformance harness for C21 (language-server answers == a fresh server's answers).
//!
//! stdin : one replay per line {"id":.., "ops":[...]}   ops as printed by spec/lsp/Lsp.tla
//! stdout: one line per replay {"id":.., "steps":[{op, same, live_kind, fresh_kind, live?, fresh?}]}
//!
//! The live server is a real `LspState` driven through the real notification/request handlers
//! (hook exports of isograph_lsp) and, for on-disk edits, the real watcher-event path
//! (categorize_and_filter_events + update_sources).  After every observation (validate / request)
//! a FRESH LspState is started on the same disk, sent didOpen for the currently open buffers, and
//! asked the same thing.  The harness judges nothing: TLC compares (spec/lsp/LspTrace.tla).
use std::collections::{BTreeMap, BTreeSet};
use std::fs;
use std::io::{BufRead, Write};
use std::panic::{AssertUnwindSafe, catch_unwind};
use std::path::{Path, PathBuf};
use std::str::FromStr;
use std::time::Instant;

use graphql_network_protocol::GraphQLAndJavascriptProfile;
use isograph_compiler::{CompilerState, update_sources, watch::verif_categorize_and_filter_events};
use isograph_config::{CompilerConfig, create_config};
use isograph_lsp::verif_exports::*;
use isograph_schema::validate_entire_schema;
use lsp_types::*;
use notify::{
    Event, EventKind,
    event::{CreateKind, DataChange, ModifyKind, RemoveKind},
};
use notify_debouncer_full::DebouncedEvent;
use pico::Database;
use serde_json::{Map, Value, json};

type P = GraphQLAndJavascriptProfile;

const SCHEMA: &str = "type Query { me: User! }\ntype User { id: ID! name: String! age: Int }\n";

fn content(file: &str, class: &str) -> String {
    let fname = if file.ends_with("a.ts") { "Fa" } else { "Fb" };
    let sel = match class {
        "ok1" => "      name",
        "ok2" => "      age",
        "err" => "      nope",
        _ => "      name {{",
    };
    format!(
        "import {{ iso }} from '@iso';\nexport const {fname} = iso(`\n  field Query.{fname} {{\n    me {{\n{sel}\n    }}\n  }}\n`)(() => null);\n"
    )
}

fn uri_of(dir: &Path, f: &str) -> Uri {
    Uri::from_str(&format!("file://{}", dir.join(f).to_str().unwrap())).unwrap()
}

fn ser<T: serde::Serialize, E: std::fmt::Debug>(r: Result<T, E>) -> Value {
    match r {
        Ok(v) => json!({"ok": serde_json::to_value(v).unwrap_or(json!("<unserializable>"))}),
        Err(e) => json!({"err": format!("{e:?}")}),
    }
}

fn guarded(f: impl FnOnce() -> Value) -> Value {
    match catch_unwind(AssertUnwindSafe(f)) {
        Ok(v) => v,
        Err(p) => json!({"panic": h_compile::panic_message(p)}),
    }
}

fn kind_of(v: &Value) -> String {
    v.as_object().and_then(|m| m.keys().next().cloned()).unwrap_or_else(|| "?".into())
}

struct Server<'a> {
    st: LspState<'a, P>,
    dir: PathBuf,
    config: CompilerConfig,
}

fn new_state(config: &CompilerConfig, dir: &Path) -> Result<CompilerState<P>, String> {
    match catch_unwind(AssertUnwindSafe(|| CompilerState::<P>::new(config.clone(), h_compile::cwd_of(dir)))) {
        Ok(Ok(s)) => Ok(s),
        Ok(Err(e)) => Err(format!("init error: {e}")),
        Err(p) => Err(format!("init panic: {}", h_compile::panic_message(p))),
    }
}

impl<'a> Server<'a> {
    fn open(&mut self, f: &str, text: String) {
        let _ = on_did_open_text_document(
            &mut self.st,
            DidOpenTextDocumentParams {
                text_document: TextDocumentItem { uri: uri_of(&self.dir, f), language_id: "typescript".into(), version: 1, text },
            },
        );
    }
    fn change(&mut self, f: &str, text: String) {
        let _ = on_did_change_text_document(
            &mut self.st,
            DidChangeTextDocumentParams {
                text_document: VersionedTextDocumentIdentifier { uri: uri_of(&self.dir, f), version: 2 },
                content_changes: vec![TextDocumentContentChangeEvent { range: None, range_length: None, text }],
            },
        );
    }
    fn close(&mut self, f: &str) {
        let _ = on_did_close_text_document(
            &mut self.st,
            DidCloseTextDocumentParams { text_document: TextDocumentIdentifier { uri: uri_of(&self.dir, f) } },
        );
    }
    fn validate(&self) -> Value {
        guarded(|| {
            let db = &self.st.compiler_state.db;
            let diags = match validate_entire_schema(db) {
                Ok(_) => vec![],
                Err(e) => e.clone(),
            };
            let (params, _) = verif_iso_diagnostics_to_params(db, &diags, BTreeSet::new());
            let mut by_uri: BTreeMap<String, Value> = BTreeMap::new();
            for p in params {
                let mut ds: Vec<Value> = p.diagnostics.iter().map(|d| serde_json::to_value(d).unwrap()).collect();
                ds.sort_by_key(|d| d.to_string());
                by_uri.insert(p.uri.to_string(), Value::Array(ds));
            }
            json!({"ok": {"count": diags.len(), "published": by_uri}})
        })
    }
    fn request(&self, kind: &str, f: &str) -> Value {
        let td = TextDocumentIdentifier { uri: uri_of(&self.dir, f) };
        let pos = TextDocumentPositionParams { text_document: td.clone(), position: Position { line: 4, character: 7 } };
        guarded(|| match kind {
            "tokens" => ser(on_semantic_token_full_request(
                &self.st,
                SemanticTokensParams { text_document: td.clone(), work_done_progress_params: Default::default(), partial_result_params: Default::default() },
            )),
            "format" => ser(on_format(
                &self.st,
                DocumentFormattingParams { text_document: td.clone(), options: Default::default(), work_done_progress_params: Default::default() },
            )),
            "hover" => ser(on_hover(&self.st, HoverParams { text_document_position_params: pos.clone(), work_done_progress_params: Default::default() })),
            "definition" => ser(on_goto_definition(
                &self.st,
                GotoDefinitionParams { text_document_position_params: pos.clone(), work_done_progress_params: Default::default(), partial_result_params: Default::default() },
            )),
            other => panic!("harness: unknown request {other}"),
        })
    }
    fn disk(&mut self, f: &str, c: &str, ev: &str) -> Result<(), String> {
        let full = self.dir.join(f);
        if c == "none" {
            fs::remove_file(&full).unwrap();
        } else {
            fs::write(&full, content(f, c)).unwrap();
        }
        let kind = match ev {
            "create" => EventKind::Create(CreateKind::File),
            "modify" => EventKind::Modify(ModifyKind::Data(DataChange::Any)),
            _ => EventKind::Remove(RemoveKind::File),
        };
        let events = vec![DebouncedEvent::new(Event::new(kind).add_path(full), Instant::now())];
        match catch_unwind(AssertUnwindSafe(|| match verif_categorize_and_filter_events(&events, &self.config) {
            None => Ok(()),
            Some(changes) => update_sources(&mut self.st.compiler_state.db, &changes),
        })) {
            Ok(Ok(())) => Ok(()),
            Ok(Err(e)) => Err(format!("update_sources: {}", e.iter().map(|x| format!("{x}")).collect::<Vec<_>>().join("; "))),
            Err(p) => Err(format!("panic: {}", h_compile::panic_message(p))),
        }
    }
}

fn run_replay(dir: &Path, rp: &Value, sender: &crossbeam::channel::Sender<lsp_server::Message>) -> Value {
    let proj = json!({"schema": SCHEMA, "files": [
        {"path": "src/a.ts", "content": content("src/a.ts", "ok1")},
        {"path": "src/b.ts", "content": content("src/b.ts", "ok1")}]});
    let cfg_path = h_compile::materialise(dir, &proj);
    let dir = dir.canonicalize().unwrap();
    std::env::set_current_dir(&dir).unwrap();
    let config = create_config(&cfg_path, h_compile::cwd_of(&dir));
    let st = new_state(&config, &dir).unwrap_or_else(|e| panic!("harness: {e}"));
    let mut live = Server { st: LspState::new(st, sender), dir: dir.clone(), config: config.clone() };
    let mut buffers: BTreeMap<String, String> = BTreeMap::new();
    let mut steps = vec![];
    for op in rp["ops"].as_array().unwrap() {
        let kind = op["op"].as_str().unwrap();
        let f = op.get("f").and_then(|x| x.as_str()).unwrap_or("");
        let c = op.get("c").and_then(|x| x.as_str()).unwrap_or("");
        let mut step = Map::new();
        step.insert("op".into(), json!(kind));
        match kind {
            "open" => {
                buffers.insert(f.into(), c.into());
                live.open(f, content(f, c));
            }
            "change" => {
                buffers.insert(f.into(), c.into());
                live.change(f, content(f, c));
            }
            "close" => {
                buffers.remove(f);
                live.close(f);
            }
            "disk" => {
                if let Err(e) = live.disk(f, c, op["ev"].as_str().unwrap()) {
                    step.insert("server_died".into(), json!(e));
                    steps.push(Value::Object(step));
                    break;
                }
            }
            "gc" => live.st.compiler_state.db.run_garbage_collection(),
            "validate" | "request" => {
                let ask = |s: &Server| if kind == "validate" { s.validate() } else { s.request(op["k"].as_str().unwrap(), f) };
                let lv = ask(&live);
                let fv = match new_state(&config, &dir) {
                    Err(e) => json!({"init": e}),
                    Ok(st) => {
                        let mut fresh = Server { st: LspState::new(st, sender), dir: dir.clone(), config: config.clone() };
                        for (bf, bc) in &buffers {
                            fresh.open(bf, content(bf, bc));
                        }
                        ask(&fresh)
                    }
                };
                step.insert("same".into(), json!(lv == fv));
                step.insert("live_kind".into(), json!(kind_of(&lv)));
                step.insert("fresh_kind".into(), json!(kind_of(&fv)));
                if lv != fv {
                    step.insert("live".into(), lv);
                    step.insert("fresh".into(), fv);
                }
            }
            other => panic!("harness: unknown op {other}"),
        }
        steps.push(Value::Object(step));
    }
    json!({"id": rp.get("id").cloned().unwrap_or(Value::Null), "steps": steps})
}

fn main() {
    std::panic::set_hook(Box::new(|_| {}));
    let args: Vec<String> = std::env::args().collect();
    let base = PathBuf::from(args.get(1).cloned().unwrap_or_else(|| "work/h_lsp".into()));
    fs::create_dir_all(&base).unwrap();
    let base = base.canonicalize().unwrap();
    let (sender, _receiver) = crossbeam::channel::unbounded::<lsp_server::Message>();
    let stdin = std::io::stdin();
    let stdout = std::io::stdout();
    let mut out = std::io::BufWriter::new(stdout.lock());
    for line in stdin.lock().lines() {
        let line = line.unwrap();
        if line.trim().is_empty() {
            continue;
        }
        let rp: Value = serde_json::from_str(&line).expect("bad json");
        let dir = base.join(format!("l{}", std::process::id()));
        let res = match catch_unwind(AssertUnwindSafe(|| run_replay(&dir, &rp, &sender))) {
            Ok(v) => v,
            Err(p) => {
                let m = h_compile::panic_message(p);
                if m.starts_with("harness:") {
                    eprintln!("HARNESS-ERROR {m}");
                    std::process::exit(3);
                }
                json!({"id": rp.get("id").cloned().unwrap_or(Value::Null), "steps": [], "harness_panic": m})
            }
        };
        writeln!(out, "{}", res).unwrap();
    }
    out.flush().unwrap();
}
