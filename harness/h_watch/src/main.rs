//! h_watch: conformance harness for C20 (watch mode == fresh batch compile; the watcher survives).
//!
//! stdin : one replay per line  {"id":.., "ops":[ {op, p, q?, c?, evs:[{k,p,q?}]} ... ]}
//! stdout: one line per replay  {"id":.., "steps":[ {alive, same, srcmap, err?, incr, fresh} ... ]}
//!
//! For every op the harness performs the REAL file-system edit in a temp project, synthesises the
//! debounced notify events listed in `evs` (the NotifyModel of spec/watch/Watch.tla), passes them
//! through the real `categorize_and_filter_events` (hook export) and `update_sources`, then compares
//! `get_artifact_path_and_content` of the live database with that of a fresh `CompilerState` on the
//! same disk.  It judges nothing; TLC does (spec/watch/WatchTrace.tla).
use std::fs;
use std::io::{BufRead, Write};
use std::panic::{AssertUnwindSafe, catch_unwind};
use std::path::{Path, PathBuf};
use std::time::Instant;

use artifact_content::get_artifact_path_and_content;
use graphql_network_protocol::GraphQLAndJavascriptProfile;
use isograph_compiler::{CompilerState, update_sources, watch::verif_categorize_and_filter_events};
use isograph_config::{CompilerConfig, create_config};
use isograph_schema::IsographDatabase;
use notify::{
    Event, EventKind,
    event::{CreateKind, DataChange, ModifyKind, RemoveKind, RenameMode},
};
use notify_debouncer_full::DebouncedEvent;
use pico::Database;
use serde_json::{Map, Value, json};

type Db = IsographDatabase<GraphQLAndJavascriptProfile>;

const SCHEMA_S1: &str = "type Query { me: User! }\ntype User { id: ID! name: String! age: Int }\n";
// s2 changes the nullability of BOTH fields the file contents select (v1: name, v2: age), so that a schema the live
// database did not pick up shows in the artifacts of every project with at least one source file
const SCHEMA_S2: &str = "type Query { me: User! }\ntype User { id: ID! name: String age: Int! nick: String }\n";

/// content of class `c`; `serial` makes the field it defines unique within a replay, so that renamed
/// copies never produce duplicate definitions (whose diagnostics depend on iteration order: C14's subject)
fn content_bytes(serial: usize, c: &str) -> Vec<u8> {
    match c {
        "bin" => vec![0xff, 0xfe, 0x00, 0x80],
        // a source file without any literal (and without the three letters of the function's name)
        "v0" => format!("// CLASS:v0\nexport const n{serial} = 1;\n").into_bytes(),
        v => {
            let sel = if v == "v1" { "name" } else { "age" };
            format!(
                "// CLASS:{v}\nimport {{ iso }} from '@iso';\nexport const f = iso(`\n  field Query.F{serial} {{\n    me {{\n      {sel}\n    }}\n  }}\n`)(() => null);\n"
            )
            .into_bytes()
        }
    }
}
fn class_of(content: &str) -> String {
    content
        .lines()
        .next()
        .and_then(|l| l.strip_prefix("// CLASS:"))
        .unwrap_or("?")
        .to_string()
}

/// The artifacts of whatever `get_artifact_path_and_content` returns on success (a plain tuple today; the repository's
/// own non-fatal-diagnostics wrapper is tolerated so that the harness still builds when the signature moves to it).
trait GeneratedArtifacts {
    fn artifacts(&self) -> &Vec<common_lang_types::ArtifactPathAndContent>;
}
impl<S> GeneratedArtifacts for (Vec<common_lang_types::ArtifactPathAndContent>, S) {
    fn artifacts(&self) -> &Vec<common_lang_types::ArtifactPathAndContent> {
        &self.0
    }
}
impl<T: GeneratedArtifacts, E> GeneratedArtifacts for common_lang_types::WithGenericNonFatalDiagnostics<T, E> {
    fn artifacts(&self) -> &Vec<common_lang_types::ArtifactPathAndContent> {
        self.item.artifacts()
    }
}

fn result_of(db: &Db) -> Value {
    match catch_unwind(AssertUnwindSafe(|| get_artifact_path_and_content(db))) {
        Err(p) => json!({"t": "panic", "msg": h_compile::panic_message(p)}),
        Ok(Ok(r)) => {
            let mut v: Vec<(String, String)> = r
                .artifacts()
                .iter()
                .map(|a| {
                    let dir = a
                        .artifact_path
                        .type_and_field
                        .map(|tf| format!("{}/{}/", tf.parent_entity_name, tf.selectable_name))
                        .unwrap_or_default();
                    (format!("{dir}{}", a.artifact_path.file_name), a.file_content.to_string())
                })
                .collect();
            v.sort();
            json!({"t": "ok", "artifacts": v})
        }
        Ok(Err(diags)) => {
            let mut v: Vec<String> = diags
                .iter()
                .map(|e| h_compile::ascii(&e.printable(db.print_location_fn(false)).to_string()))
                .collect();
            v.sort();
            json!({"t": "diagnostics", "diagnostics": v})
        }
    }
}

fn srcmap(db: &Db, root: &Path) -> Value {
    let mut m = Map::new();
    let _ = root;
    for (path, id) in db.get_iso_literal_map().untracked().0.iter() {
        let src = db.get(*id);
        m.insert(path.to_string(), json!(class_of(&src.content)));
    }
    Value::Object(m)
}

fn event(dir: &Path, e: &Value) -> DebouncedEvent {
    let abs = |p: &str| -> PathBuf {
        if p == "schema" {
            dir.join("schema.graphql")
        } else if p == "schema.tmp" {
            dir.join("schema.graphql.tmp")
        } else {
            dir.join(p)
        }
    };
    let k = e["k"].as_str().unwrap();
    let p = abs(e["p"].as_str().unwrap());
    let ev = match k {
        "create" => {
            let kind = if p.is_dir() { CreateKind::Folder } else { CreateKind::File };
            Event::new(EventKind::Create(kind)).add_path(p)
        }
        "modify" => Event::new(EventKind::Modify(ModifyKind::Data(DataChange::Any))).add_path(p),
        "remove" => {
            let kind = if e["p"].as_str().unwrap().contains('.') { RemoveKind::File } else { RemoveKind::Folder };
            Event::new(EventKind::Remove(kind)).add_path(p)
        }
        "rename" => Event::new(EventKind::Modify(ModifyKind::Name(RenameMode::Both)))
            .add_path(p)
            .add_path(abs(e["q"].as_str().unwrap())),
        // one half of a rename whose other half is outside of the watched paths
        "rename_to" => Event::new(EventKind::Modify(ModifyKind::Name(RenameMode::To))).add_path(p),
        "rename_from" => Event::new(EventKind::Modify(ModifyKind::Name(RenameMode::From))).add_path(p),
        other => panic!("harness: unknown event kind {other}"),
    };
    DebouncedEvent::new(ev, Instant::now())
}

fn edit(dir: &Path, op: &Value, serial: usize) {
    let kind = op["op"].as_str().unwrap();
    match kind {
        "write" => {
            let p = op["p"].as_str().unwrap();
            let full = dir.join(p);
            fs::create_dir_all(full.parent().unwrap()).unwrap();
            fs::write(&full, content_bytes(serial, op["c"].as_str().unwrap())).unwrap();
        }
        "delete" => fs::remove_file(dir.join(op["p"].as_str().unwrap())).unwrap(),
        "rename" | "mvdir" => {
            let to = dir.join(op["q"].as_str().unwrap());
            fs::create_dir_all(to.parent().unwrap()).unwrap();
            fs::rename(dir.join(op["p"].as_str().unwrap()), to).unwrap();
        }
        "rmdir" => fs::remove_dir_all(dir.join(op["p"].as_str().unwrap())).unwrap(),
        "schema" => {
            let s = if op["c"] == "s2" { SCHEMA_S2 } else { SCHEMA_S1 };
            fs::write(dir.join("schema.graphql"), s).unwrap();
        }
        "rmschema" => fs::remove_file(dir.join("schema.graphql")).unwrap(),
        // moves across the boundary of the watched paths (`outside` is a sibling of `src`), atomic saves
        "movein" => {
            let p = op["p"].as_str().unwrap();
            let out = dir.join("outside").join(format!("in{serial}.ts"));
            fs::create_dir_all(out.parent().unwrap()).unwrap();
            fs::write(&out, content_bytes(serial, op["c"].as_str().unwrap())).unwrap();
            let full = dir.join(p);
            fs::create_dir_all(full.parent().unwrap()).unwrap();
            fs::rename(out, full).unwrap();
        }
        "moveout" | "moveout_dir" => {
            let out = dir.join("outside").join(format!("out{serial}"));
            fs::create_dir_all(out.parent().unwrap()).unwrap();
            fs::rename(dir.join(op["p"].as_str().unwrap()), out).unwrap();
        }
        "movein_dir" => {
            let out = dir.join("outside").join(format!("dir{serial}"));
            fs::create_dir_all(&out).unwrap();
            fs::write(out.join("x.ts"), content_bytes(serial * 10, op["c"].as_str().unwrap())).unwrap();
            fs::write(out.join("n.md"), content_bytes(serial * 10 + 1, op["c"].as_str().unwrap())).unwrap();
            fs::rename(out, dir.join(op["p"].as_str().unwrap())).unwrap();
        }
        "atomic" => {
            let full = dir.join(op["p"].as_str().unwrap());
            let tmp = PathBuf::from(format!("{}.tmp", full.display()));
            fs::write(&tmp, content_bytes(serial, op["c"].as_str().unwrap())).unwrap();
            fs::rename(tmp, full).unwrap();
        }
        "schema_atomic" => {
            let s = if op["c"] == "s2" { SCHEMA_S2 } else { SCHEMA_S1 };
            fs::write(dir.join("schema.graphql.tmp"), s).unwrap();
            fs::rename(dir.join("schema.graphql.tmp"), dir.join("schema.graphql")).unwrap();
        }
        "gc" => {}
        "batch" => {
            for (i, e) in op["edits"].as_array().unwrap().iter().enumerate() {
                edit(dir, e, serial * 10 + i);
            }
        }
        other => panic!("harness: unknown op {other}"),
    }
}

fn fresh_result(config: &CompilerConfig, dir: &Path) -> Value {
    match catch_unwind(AssertUnwindSafe(|| {
        CompilerState::<GraphQLAndJavascriptProfile>::new(config.clone(), h_compile::cwd_of(dir))
    })) {
        Err(p) => json!({"t": "panic", "msg": h_compile::panic_message(p)}),
        Ok(Err(e)) => json!({"t": "init_error", "msg": h_compile::ascii(&format!("{e}"))}),
        Ok(Ok(st)) => result_of(&st.db),
    }
}

fn run_replay(dir: &Path, rp: &Value) -> Value {
    let proj = json!({
        "schema": SCHEMA_S1,
        "files": [
            {"path": "src/a/x.ts", "content": String::from_utf8(content_bytes(0, "v1")).unwrap()},
            {"path": "src/ab/y.ts", "content": String::from_utf8(content_bytes(1, "v1")).unwrap()},
            {"path": "src/top.ts", "content": String::from_utf8(content_bytes(2, "v1")).unwrap()},
        ],
    });
    let cfg_path = h_compile::materialise(dir, &proj);
    let dir = dir.canonicalize().unwrap();
    // read_schema_file joins the (relative) schema path onto the process cwd
    std::env::set_current_dir(&dir).unwrap();
    let cwd = h_compile::cwd_of(&dir);
    let config = create_config(&cfg_path, cwd);
    let mut state = CompilerState::<GraphQLAndJavascriptProfile>::new(config.clone(), cwd)
        .unwrap_or_else(|e| panic!("harness: initial state failed: {e}"));
    let mut steps = vec![];
    for (n, op) in rp["ops"].as_array().unwrap().iter().enumerate() {
        let mut step = Map::new();
        if op["op"] == "gc" {
            state.db.run_garbage_collection();
        }
        edit(&dir, op, 10 + n);
        let events: Vec<DebouncedEvent> = op["evs"].as_array().map(|a| a.iter().map(|e| event(&dir, e)).collect()).unwrap_or_default();
        let handled = catch_unwind(AssertUnwindSafe(|| {
            match verif_categorize_and_filter_events(&events, &config) {
                None => Ok(()),
                Some(changes) => update_sources(&mut state.db, &changes),
            }
        }));
        let alive = match handled {
            Ok(Ok(())) => true,
            Ok(Err(errs)) => {
                step.insert("err".into(), json!(errs.iter().map(|e| h_compile::ascii(&format!("{e}"))).collect::<Vec<_>>()));
                false
            }
            Err(p) => {
                step.insert("err".into(), json!([format!("panic: {}", h_compile::panic_message(p))]));
                false
            }
        };
        step.insert("alive".into(), json!(alive));
        let incr = if alive { result_of(&state.db) } else { json!({"t": "dead"}) };
        let fresh = fresh_result(&config, &dir);
        step.insert("same".into(), json!(alive && incr == fresh));
        step.insert("incr_kind".into(), incr["t"].clone());
        step.insert("fresh_kind".into(), fresh["t"].clone());
        if alive && incr != fresh {
            step.insert("incr".into(), summarize(&incr));
            step.insert("fresh".into(), summarize(&fresh));
        }
        step.insert("srcmap".into(), srcmap(&state.db, &dir));
        steps.push(Value::Object(step));
        if !alive {
            break;
        }
    }
    json!({"id": rp.get("id").cloned().unwrap_or(Value::Null), "steps": steps})
}

fn summarize(r: &Value) -> Value {
    match r["t"].as_str().unwrap_or("") {
        "ok" => json!({"t": "ok", "paths": r["artifacts"].as_array().unwrap().iter().map(|a| a[0].clone()).collect::<Vec<_>>()}),
        _ => r.clone(),
    }
}

fn main() {
    std::panic::set_hook(Box::new(|_| {}));
    let args: Vec<String> = std::env::args().collect();
    let base = PathBuf::from(args.get(1).cloned().unwrap_or_else(|| "work/h_watch".into()));
    fs::create_dir_all(&base).unwrap();
    let base = base.canonicalize().unwrap();
    let stdin = std::io::stdin();
    let stdout = std::io::stdout();
    let mut out = std::io::BufWriter::new(stdout.lock());
    for line in stdin.lock().lines() {
        let line = line.unwrap();
        if line.trim().is_empty() {
            continue;
        }
        let rp: Value = serde_json::from_str(&line).expect("bad json");
        let dir = base.join(format!("w{}", std::process::id()));
        let res = run_replay(&dir, &rp);
        writeln!(out, "{}", res).unwrap();
    }
    out.flush().unwrap();
}
