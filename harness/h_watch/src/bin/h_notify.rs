//! h_notify: checks the NotifyModel assumption of spec/watch/Watch.tla against the REAL watcher stack
//! (notify 7 + notify-debouncer-full 0.4, same 100 ms debounce as isograph's watch mode).
//! stdin : one scenario per line {"id":.., "setup":[edits], "edit": edit}   edit = {op,p,q?}
//! stdout: {"id":.., "events":[{"k":..,"p":..,"q"?..}]}   debounced events observed for `edit`
//! Informational only (thorough tier): a difference is reported as an ASSUMPTION difference, never as
//! a violation.
use std::fs;
use std::io::{BufRead, Write};
use std::path::{Path, PathBuf};
use std::sync::mpsc::channel;
use std::time::Duration;

use notify::{
    EventKind, RecursiveMode,
    event::{CreateKind, ModifyKind, RemoveKind, RenameMode},
};
use notify_debouncer_full::{DebounceEventResult, new_debouncer};
use serde_json::{Value, json};

fn apply(dir: &Path, e: &Value) {
    let p = dir.join(e["p"].as_str().unwrap());
    match e["op"].as_str().unwrap() {
        "write" => {
            fs::create_dir_all(p.parent().unwrap()).unwrap();
            fs::write(&p, format!("// {}\n", e["c"].as_str().unwrap_or("v1"))).unwrap();
        }
        "delete" => fs::remove_file(&p).unwrap(),
        "rmdir" => fs::remove_dir_all(&p).unwrap(),
        "rename" | "mvdir" => {
            let q = dir.join(e["q"].as_str().unwrap());
            fs::create_dir_all(q.parent().unwrap()).unwrap();
            fs::rename(&p, &q).unwrap();
        }
        // the model's boundary moves / atomic save, performed the way h_watch performs them
        "movein" => {
            let out = dir.join("outside").join("in.ts");
            fs::rename(out, &p).unwrap();
        }
        "moveout" | "moveout_dir" => fs::rename(&p, dir.join("outside").join("moved_out")).unwrap(),
        "movein_dir" => fs::rename(dir.join("outside").join("dir"), &p).unwrap(),
        "atomic" => fs::rename(PathBuf::from(format!("{}.tmp", p.display())), &p).unwrap(),
        other => panic!("unknown op {other}"),
    }
}

fn main() {
    let args: Vec<String> = std::env::args().collect();
    let base = PathBuf::from(args.get(1).cloned().unwrap_or_else(|| "work/h_notify".into()));
    fs::create_dir_all(&base).unwrap();
    let base = base.canonicalize().unwrap();
    let stdin = std::io::stdin();
    let stdout = std::io::stdout();
    for (n, line) in stdin.lock().lines().enumerate() {
        let line = line.unwrap();
        if line.trim().is_empty() {
            continue;
        }
        let sc: Value = serde_json::from_str(&line).unwrap();
        let dir = base.join(format!("n{}_{}", std::process::id(), n));
        let _ = fs::remove_dir_all(&dir);
        fs::create_dir_all(dir.join("src")).unwrap();
        for e in sc["setup"].as_array().unwrap() {
            apply(&dir, e);
        }
        std::thread::sleep(Duration::from_millis(50));
        let (tx, rx) = channel::<DebounceEventResult>();
        let mut deb = new_debouncer(Duration::from_millis(100), None, tx).unwrap();
        deb.watch(dir.join("src"), RecursiveMode::Recursive).unwrap();
        std::thread::sleep(Duration::from_millis(150));
        if let Some(edits) = sc.get("edits").and_then(|e| e.as_array()) {
            for e in edits {
                apply(&dir, e);
            }
        } else {
            apply(&dir, &sc["edit"]);
        }
        let mut events = vec![];
        let mut quiet = 0;
        while quiet < 6 {
            match rx.recv_timeout(Duration::from_millis(150)) {
                Ok(Ok(evs)) => {
                    quiet = 0;
                    for ev in evs {
                        let rel = |p: &PathBuf| p.strip_prefix(&dir).map(|x| x.to_string_lossy().to_string()).unwrap_or_else(|_| p.to_string_lossy().to_string());
                        let k = match ev.kind {
                            EventKind::Create(CreateKind::File) => "create",
                            EventKind::Create(CreateKind::Folder) => "create_folder",
                            EventKind::Create(_) => "create_other",
                            EventKind::Modify(ModifyKind::Data(_)) => "modify",
                            EventKind::Modify(ModifyKind::Name(RenameMode::Both)) => "rename",
                            EventKind::Modify(ModifyKind::Name(RenameMode::From)) => "rename_from",
                            EventKind::Modify(ModifyKind::Name(RenameMode::To)) => "rename_to",
                            EventKind::Modify(ModifyKind::Name(_)) => "rename_any",
                            EventKind::Modify(ModifyKind::Metadata(_)) => "metadata",
                            EventKind::Modify(_) => "modify_other",
                            EventKind::Remove(RemoveKind::File) => "remove",
                            EventKind::Remove(RemoveKind::Folder) => "remove",
                            EventKind::Remove(_) => "remove",
                            EventKind::Access(_) => continue,
                            _ => "other",
                        };
                        let mut o = json!({"k": k, "p": rel(&ev.paths[0])});
                        if ev.paths.len() > 1 {
                            o["q"] = json!(rel(&ev.paths[1]));
                        }
                        events.push(o);
                    }
                }
                Ok(Err(_)) => quiet += 1,
                Err(_) => quiet += 1,
            }
        }
        drop(deb);
        let _ = fs::remove_dir_all(&dir);
        let mut o = stdout.lock();
        writeln!(o, "{}", json!({"id": sc["id"], "events": events})).unwrap();
        o.flush().unwrap();
    }
}
