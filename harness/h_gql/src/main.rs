//! Harness for the `gqlgrammar` engine.  Trusted base — kept dumb on purpose:
//!   * reads ndjson requests  {"id":n,"api":"relay_exec"|"relay_sdl"|"iso_schema"|"iso_ext","text":[code points]}
//!   * runs the real parser (and, for relay_sdl, the real printer + a re-parse),
//!   * projects what the parser produced to the homogeneous JSON tree  {"t":tag,"s":ascii,"v":[ints],"k":[kids]}
//!     (no spans, no tokens), plus the token kinds the real lexer produced,
//!   * writes one ndjson response per request.
//! No property is decided here: verdict and tree comparison are TLA+ predicates evaluated by TLC.
//! A panic of the code under test is data ("panic":true).

use std::io::{BufRead, Write};
use std::panic::{catch_unwind, AssertUnwindSafe};

use logos::Logos;
use serde_json::{json, Value as J};

mod iso;
mod relay;

pub fn node(t: &str, s: &str, v: Vec<i64>, k: Vec<J>) -> J {
    json!({"t": t, "s": s, "v": v, "k": k})
}
pub fn leaf(t: &str, s: &str) -> J {
    node(t, s, vec![], vec![])
}
pub fn none() -> J {
    leaf("none", "")
}
pub fn cps(s: &str) -> Vec<i64> {
    s.chars().map(|c| c as i64).collect()
}

/// i64 -> [neg, d1, d2, ...]   (zero is [0, 0])
pub fn int_v(x: i64) -> Vec<i64> {
    let mut v = vec![if x < 0 { 1 } else { 0 }];
    let digits = x.unsigned_abs().to_string();
    v.extend(digits.bytes().map(|b| (b - b'0') as i64));
    v
}

/// f64 -> [neg, E, d1, d2, ...] with value = (-1)^neg * (d1 d2 ... as an integer) * 10^E, no leading/trailing zero
/// digits; zero is [0, 0, 0]; non-finite is [2, 0, 0].  Uses Rust's shortest round-trip formatting.
pub fn float_v(x: f64) -> Vec<i64> {
    if !x.is_finite() {
        return vec![2, 0, 0];
    }
    if x == 0.0 {
        return vec![0, 0, 0];
    }
    let s = format!("{:e}", x.abs());
    let (mant, exp) = s.split_once('e').unwrap();
    let exp: i64 = exp.parse().unwrap();
    let (ip, fp) = mant.split_once('.').unwrap_or((mant, ""));
    let mut digits: Vec<i64> = ip.bytes().chain(fp.bytes()).map(|b| (b - b'0') as i64).collect();
    let mut e = exp - fp.len() as i64;
    while digits.len() > 1 && *digits.last().unwrap() == 0 {
        digits.pop();
        e += 1;
    }
    let mut v = vec![if x < 0.0 { 1 } else { 0 }, e];
    v.extend(digits);
    v
}

/// Token kinds of the real lexer (the public logos lexer both parsers are built on).
/// Returns (tokens, byte spans).
fn lex(src: &str) -> (Vec<J>, Vec<(usize, usize)>) {
    let mut lexer = graphql_syntax::TokenKind::lexer(src);
    let mut out = vec![];
    let mut spans = vec![];
    while let Some(kind) = lexer.next() {
        let mut kind_s = format!("{:?}", kind);
        if kind == graphql_syntax::TokenKind::Error {
            if let Some(k) = lexer.extras.error_token.take() {
                kind_s = format!("{:?}", k);
            }
        }
        let slice = lexer.slice();
        let text = if slice.len() <= 40 && slice.bytes().all(|b| b.is_ascii_graphic()) && !slice.contains('"') && !slice.contains('\\') {
            slice.to_string()
        } else {
            String::new()
        };
        out.push(json!({"k": kind_s, "s": text}));
        spans.push((lexer.span().start, lexer.span().end));
    }
    (out, spans)
}

/// 1-based index of the first lexer token that ends after byte offset `pos` (n+1 = end of input).
fn tok_at(spans: &[(usize, usize)], pos: usize) -> usize {
    for (i, (_, e)) in spans.iter().enumerate() {
        if *e > pos {
            return i + 1;
        }
    }
    spans.len() + 1
}

pub struct Outcome {
    pub accept: bool,
    pub tree: J,
    pub err: String,
    pub errpos: Option<usize>,
    pub extra: Vec<(&'static str, J)>,
}

fn handle(req: &J) -> J {
    let id = req["id"].clone();
    let api = req["api"].as_str().unwrap_or("").to_string();
    let text: String = req["text"]
        .as_array()
        .map(|a| a.iter().filter_map(|c| c.as_u64().and_then(|c| char::from_u32(c as u32))).collect())
        .unwrap_or_default();
    let (lexed, spans) = match catch_unwind(AssertUnwindSafe(|| lex(&text))) {
        Ok(x) => x,
        Err(_) => (vec![json!({"k": "LexerPanic", "s": ""})], vec![]),
    };
    let r = catch_unwind(AssertUnwindSafe(|| match api.as_str() {
        "relay_exec" => relay::exec(&text),
        "relay_sdl" => relay::sdl(&text),
        "iso_schema" => iso::schema(&text),
        "iso_ext" => iso::ext(&text),
        _ => Outcome { accept: false, tree: none(), err: format!("unknown api {api}"), errpos: None, extra: vec![] },
    }));
    match r {
        Ok(o) => {
            let mut m = serde_json::Map::new();
            m.insert("id".into(), id);
            m.insert("api".into(), json!(api));
            m.insert("panic".into(), json!(false));
            m.insert("accept".into(), json!(o.accept));
            m.insert("tree".into(), o.tree);
            m.insert("err".into(), json!(o.err));
            m.insert("errtok".into(), json!(o.errpos.map(|p| tok_at(&spans, p)).unwrap_or(0)));
            m.insert("lex".into(), J::Array(lexed));
            for (k, v) in o.extra {
                m.insert(k.into(), v);
            }
            J::Object(m)
        }
        Err(p) => {
            let msg = p
                .downcast_ref::<String>()
                .cloned()
                .or_else(|| p.downcast_ref::<&str>().map(|s| s.to_string()))
                .unwrap_or_else(|| "panic".to_string());
            json!({"id": id, "api": api, "panic": true, "accept": false, "tree": none(), "err": msg, "errtok": 0, "lex": lexed})
        }
    }
}

fn main() {
    std::panic::set_hook(Box::new(|_| {}));
    let stdin = std::io::stdin();
    let stdout = std::io::stdout();
    let mut out = std::io::BufWriter::new(stdout.lock());
    for line in stdin.lock().lines() {
        let line = line.expect("stdin");
        if line.trim().is_empty() {
            continue;
        }
        let req: J = serde_json::from_str(&line).expect("request json");
        let resp = handle(&req);
        writeln!(out, "{}", resp).unwrap();
    }
    out.flush().unwrap();
}
