//! Projection of crates/graphql_schema_parser results (GraphQLTypeSystemDocument / ...ExtensionDocument).
use common_lang_types::{Diagnostic, Location, TextSource, WithEmbeddedLocation};
use graphql_lang_types::*;
use graphql_schema_parser::{parse_schema, parse_schema_extensions};
use intern::string_key::Intern;
use serde_json::Value as J;

use crate::{cps, float_v, int_v, leaf, node, none, Outcome};

fn text_source() -> TextSource {
    TextSource { relative_path_to_source_file: "verif.graphql".intern().into(), span: None }
}

fn rejected(d: Diagnostic) -> Outcome {
    let errpos = match d.0.location {
        Some(Location::Embedded(l)) => Some(l.span.start as usize),
        _ => None,
    };
    Outcome { accept: false, tree: none(), err: d.0.message.clone(), errpos, extra: vec![] }
}

pub fn schema(text: &str) -> Outcome {
    match parse_schema(text, text_source()) {
        Ok(doc) => Outcome {
            accept: true,
            tree: node("doc", "", vec![], doc.0.iter().map(|d| def(&d.item)).collect()),
            err: String::new(),
            errpos: None,
            extra: vec![],
        },
        Err(d) => rejected(d),
    }
}

pub fn ext(text: &str) -> Outcome {
    match parse_schema_extensions(text, text_source()) {
        Ok(doc) => Outcome {
            accept: true,
            tree: node(
                "doc",
                "",
                vec![],
                doc.0
                    .iter()
                    .map(|d| match &d.item {
                        GraphQLTypeSystemExtensionOrDefinition::Definition(d) => def(d),
                        GraphQLTypeSystemExtensionOrDefinition::Extension(GraphQLTypeSystemExtension::ObjectTypeExtension(
                            o,
                        )) => {
                            let mut k = vec![];
                            named_list("implements", &o.interfaces, &mut k);
                            k.extend(dirs(&o.directives));
                            fields(&o.fields, &mut k);
                            node("extend_type", &o.name.item.to_string(), vec![], k)
                        }
                    })
                    .collect(),
            ),
            err: String::new(),
            errpos: None,
            extra: vec![],
        },
        Err(d) => rejected(d),
    }
}

fn desc(d: &Option<WithEmbeddedLocation<common_lang_types::DescriptionValue>>, k: &mut Vec<J>) {
    if let Some(d) = d {
        k.push(node("desc", "", cps(&d.item.to_string()), vec![]));
    }
}

fn named_list<T: std::fmt::Display>(tag: &str, l: &[WithEmbeddedLocation<T>], k: &mut Vec<J>) {
    if !l.is_empty() {
        k.push(node(tag, "", vec![], l.iter().map(|i| leaf("named", &i.item.to_string())).collect()));
    }
}

fn cvalue(v: &GraphQLConstantValue) -> J {
    match v {
        GraphQLConstantValue::Int(i) => node("int", "", int_v(*i), vec![]),
        GraphQLConstantValue::Float(f) => node("float", "", float_v(f.as_float()), vec![]),
        GraphQLConstantValue::String(s) => node("string", "", cps(&s.to_string()), vec![]),
        GraphQLConstantValue::Boolean(b) => leaf("bool", if *b { "true" } else { "false" }),
        GraphQLConstantValue::Null => leaf("null", ""),
        GraphQLConstantValue::Enum(e) => leaf("enum", &e.to_string()),
        GraphQLConstantValue::List(l) => node("list", "", vec![], l.iter().map(|x| cvalue(&x.item)).collect()),
        GraphQLConstantValue::Object(o) => node(
            "object",
            "",
            vec![],
            o.iter().map(|p| node("objfield", &p.name.item.to_string(), vec![], vec![cvalue(&p.value.item)])).collect(),
        ),
    }
}

fn dirs(ds: &[GraphQLDirective<GraphQLConstantValue>]) -> Vec<J> {
    ds.iter()
        .map(|d| {
            let mut k = vec![];
            if !d.arguments.is_empty() {
                k.push(node(
                    "args",
                    "",
                    vec![],
                    d.arguments
                        .iter()
                        .map(|a| node("arg", &a.name.item.to_string(), vec![], vec![cvalue(&a.value.item)]))
                        .collect(),
                ));
            }
            node("dir", &d.name.item.to_string(), vec![], k)
        })
        .collect()
}

fn type_(t: &GraphQLTypeAnnotation) -> J {
    match t {
        GraphQLTypeAnnotation::Named(n) => leaf("named", &n.0.to_string()),
        GraphQLTypeAnnotation::List(l) => node("listtype", "", vec![], vec![type_(&l.0.item)]),
        GraphQLTypeAnnotation::NonNull(n) => node(
            "nonnull",
            "",
            vec![],
            vec![match &**n {
                GraphQLNonNullTypeAnnotation::Named(n) => leaf("named", &n.0.to_string()),
                GraphQLNonNullTypeAnnotation::List(l) => node("listtype", "", vec![], vec![type_(&l.0.item)]),
            }],
        ),
    }
}

fn inputvalue(i: &GraphQLInputValueDefinition) -> J {
    let mut k = vec![];
    desc(&i.description, &mut k);
    k.push(type_(&i.type_.item));
    if let Some(d) = &i.default_value {
        k.push(node("default", "", vec![], vec![cvalue(&d.item)]));
    }
    k.extend(dirs(&i.directives));
    node("inputvalue", &i.name.item.to_string(), vec![], k)
}

fn argdefs(a: &[WithEmbeddedLocation<GraphQLInputValueDefinition>], tag: &str, k: &mut Vec<J>) {
    if !a.is_empty() {
        k.push(node(tag, "", vec![], a.iter().map(|i| inputvalue(&i.item)).collect()));
    }
}

fn fields(f: &[WithEmbeddedLocation<GraphQLFieldDefinition>], k: &mut Vec<J>) {
    if !f.is_empty() {
        k.push(node(
            "fields",
            "",
            vec![],
            f.iter()
                .map(|f| {
                    let f = &f.item;
                    let mut k = vec![];
                    desc(&f.description, &mut k);
                    argdefs(&f.arguments, "argdefs", &mut k);
                    k.push(type_(&f.type_.item));
                    k.extend(dirs(&f.directives));
                    node("fielddef", &f.name.item.to_string(), vec![], k)
                })
                .collect(),
        ));
    }
}

fn def(d: &GraphQLTypeSystemDefinition) -> J {
    use GraphQLTypeSystemDefinition as T;
    match d {
        T::ObjectTypeDefinition(o) => {
            let mut k = vec![];
            desc(&o.description, &mut k);
            named_list("implements", &o.interfaces, &mut k);
            k.extend(dirs(&o.directives));
            fields(&o.fields, &mut k);
            node("type", &o.name.item.to_string(), vec![], k)
        }
        T::InterfaceTypeDefinition(o) => {
            let mut k = vec![];
            desc(&o.description, &mut k);
            named_list("implements", &o.interfaces, &mut k);
            k.extend(dirs(&o.directives));
            fields(&o.fields, &mut k);
            node("interface", &o.name.item.to_string(), vec![], k)
        }
        T::ScalarTypeDefinition(s) => {
            let mut k = vec![];
            desc(&s.description, &mut k);
            k.extend(dirs(&s.directives));
            node("scalar", &s.name.item.to_string(), vec![], k)
        }
        T::InputObjectTypeDefinition(i) => {
            let mut k = vec![];
            desc(&i.description, &mut k);
            k.extend(dirs(&i.directives));
            argdefs(&i.fields, "inputfields", &mut k);
            node("input", &i.name.item.to_string(), vec![], k)
        }
        T::DirectiveDefinition(d) => {
            let mut k = vec![];
            desc(&d.description, &mut k);
            argdefs(&d.arguments, "argdefs", &mut k);
            if d.repeatable.is_some() {
                k.push(leaf("repeatable", ""));
            }
            k.push(node(
                "locations",
                "",
                vec![],
                d.locations.iter().map(|l| leaf("loc", &location_name(l.item))).collect(),
            ));
            node("directive", &d.name.item.to_string(), vec![], k)
        }
        T::EnumDefinition(e) => {
            let mut k = vec![];
            desc(&e.description, &mut k);
            k.extend(dirs(&e.directives));
            if !e.enum_value_definitions.is_empty() {
                k.push(node(
                    "values",
                    "",
                    vec![],
                    e.enum_value_definitions
                        .iter()
                        .map(|v| {
                            let mut k = vec![];
                            desc(&v.item.description, &mut k);
                            k.extend(dirs(&v.item.directives));
                            node("enumvalue", &v.item.value.item.to_string(), vec![], k)
                        })
                        .collect(),
                ));
            }
            node("enumdef", &e.name.item.to_string(), vec![], k)
        }
        T::UnionTypeDefinition(u) => {
            let mut k = vec![];
            desc(&u.description, &mut k);
            k.extend(dirs(&u.directives));
            named_list("members", &u.union_member_types, &mut k);
            node("union", &u.name.item.to_string(), vec![], k)
        }
        T::SchemaDefinition(s) => {
            // the parsed structure keeps one slot per operation type, not the order written:
            // emitted in the fixed order query, mutation, subscription (the TLA+ side normalises the same way)
            let mut k = vec![];
            desc(&s.description, &mut k);
            k.extend(dirs(&s.directives));
            for (op, t) in [("query", &s.query), ("mutation", &s.mutation), ("subscription", &s.subscription)] {
                if let Some(t) = t {
                    k.push(node("optype", op, vec![], vec![leaf("named", &t.item.to_string())]));
                }
            }
            node("schema", "", vec![], k)
        }
    }
}

/// DirectiveLocation has no Display; Debug gives CamelCase -> SCREAMING_SNAKE_CASE (inverse of the strum attribute).
fn location_name(l: DirectiveLocation) -> String {
    let camel = format!("{:?}", l);
    let mut out = String::new();
    for (i, c) in camel.chars().enumerate() {
        if c.is_ascii_uppercase() && i > 0 {
            out.push('_');
        }
        out.push(c.to_ascii_uppercase());
    }
    out
}
