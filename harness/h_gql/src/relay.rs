//! Projection of relay-crates/graphql-syntax trees (ExecutableDocument, SchemaDocument) to the JSON tree.
use common::SourceLocationKey;
use graphql_syntax::*;
use intern::Lookup;
use serde_json::Value as J;

use crate::{cps, float_v, int_v, leaf, node, none, Outcome};

fn first_err(diags: &[common::Diagnostic]) -> (String, Option<usize>) {
    match diags.first() {
        Some(d) => (d.print_without_source(), Some(d.location().span().start as usize)),
        None => ("(no diagnostic)".to_string(), None),
    }
}

pub fn exec(text: &str) -> Outcome {
    match parse_executable(text, SourceLocationKey::generated()) {
        Ok(doc) => Outcome { accept: true, tree: exec_doc(&doc), err: String::new(), errpos: None, extra: vec![] },
        Err(diags) => {
            let (err, errpos) = first_err(&diags);
            Outcome { accept: false, tree: none(), err, errpos, extra: vec![] }
        }
    }
}

pub fn sdl(text: &str) -> Outcome {
    match parse_schema_document(text, SourceLocationKey::generated()) {
        Ok(doc) => {
            let tree = sdl_doc(&doc);
            // round trip: print (Display of SchemaDocument) and re-parse
            let printed = format!("{}", doc);
            let rt = match parse_schema_document(&printed, SourceLocationKey::generated()) {
                Ok(doc2) => serde_json::json!({"ok": true, "tree": sdl_doc(&doc2), "printed": cps(&printed), "err": ""}),
                Err(diags) => {
                    serde_json::json!({"ok": false, "tree": none(), "printed": cps(&printed), "err": first_err(&diags).0})
                }
            };
            Outcome { accept: true, tree, err: String::new(), errpos: None, extra: vec![("rt", rt)] }
        }
        Err(diags) => {
            let (err, errpos) = first_err(&diags);
            Outcome { accept: false, tree: none(), err, errpos, extra: vec![] }
        }
    }
}

// ---------------------------------------------------------------- executable documents

fn exec_doc(doc: &ExecutableDocument) -> J {
    node("doc", "", vec![], doc.definitions.iter().map(exec_def).collect())
}

fn exec_def(d: &ExecutableDefinition) -> J {
    match d {
        ExecutableDefinition::Operation(op) => {
            let mut k = vec![];
            if let Some(n) = &op.name {
                k.push(leaf("name", n.value.lookup()));
            }
            if let Some(vs) = &op.variable_definitions {
                k.push(node("vardefs", "", vec![], vs.items.iter().map(vardef).collect()));
            }
            k.extend(op.directives.iter().map(dir));
            k.push(sels(&op.selections));
            node("op", &op.operation_kind().to_string(), vec![], k)
        }
        ExecutableDefinition::Fragment(f) => {
            let mut k = vec![];
            if let Some(vs) = &f.variable_definitions {
                k.push(node("vardefs", "", vec![], vs.items.iter().map(vardef).collect()));
            }
            k.push(leaf("on", f.type_condition.type_.value.lookup()));
            k.extend(f.directives.iter().map(dir));
            k.push(sels(&f.selections));
            node("fragment", f.name.value.lookup(), vec![], k)
        }
    }
}

fn vardef(v: &VariableDefinition) -> J {
    let mut k = vec![type_(&v.type_)];
    if let Some(d) = &v.default_value {
        k.push(node("default", "", vec![], vec![cvalue(&d.value)]));
    }
    k.extend(v.directives.iter().map(dir));
    node("vardef", v.name.name.lookup(), vec![], k)
}

fn sels(l: &List<Selection>) -> J {
    node("sels", "", vec![], l.items.iter().map(selection).collect())
}

fn args(a: &Option<List<Argument>>, k: &mut Vec<J>) {
    if let Some(a) = a {
        k.push(node("args", "", vec![], a.items.iter().map(arg).collect()));
    }
}

fn arg(a: &Argument) -> J {
    node("arg", a.name.value.lookup(), vec![], vec![value(&a.value)])
}

fn selection(s: &Selection) -> J {
    match s {
        Selection::ScalarField(f) => {
            let mut k = vec![];
            if let Some(a) = &f.alias {
                k.push(leaf("alias", a.alias.value.lookup()));
            }
            args(&f.arguments, &mut k);
            k.extend(f.directives.iter().map(dir));
            node("field", f.name.value.lookup(), vec![], k)
        }
        Selection::LinkedField(f) => {
            let mut k = vec![];
            if let Some(a) = &f.alias {
                k.push(leaf("alias", a.alias.value.lookup()));
            }
            args(&f.arguments, &mut k);
            k.extend(f.directives.iter().map(dir));
            k.push(sels(&f.selections));
            node("field", f.name.value.lookup(), vec![], k)
        }
        Selection::FragmentSpread(f) => {
            let mut k = vec![];
            args(&f.arguments, &mut k);
            k.extend(f.directives.iter().map(dir));
            node("spread", f.name.value.lookup(), vec![], k)
        }
        Selection::InlineFragment(f) => {
            let mut k = vec![];
            if let Some(tc) = &f.type_condition {
                k.push(leaf("on", tc.type_.value.lookup()));
            }
            k.extend(f.directives.iter().map(dir));
            k.push(sels(&f.selections));
            node("inline", "", vec![], k)
        }
    }
}

fn dir(d: &Directive) -> J {
    let mut k = vec![];
    args(&d.arguments, &mut k);
    node("dir", d.name.value.lookup(), vec![], k)
}

fn value(v: &Value) -> J {
    match v {
        Value::Constant(c) => cvalue(c),
        Value::Variable(v) => leaf("var", v.name.lookup()),
        Value::List(l) => node("list", "", vec![], l.items.iter().map(value).collect()),
        Value::Object(o) => node(
            "object",
            "",
            vec![],
            o.items.iter().map(|a| node("objfield", a.name.value.lookup(), vec![], vec![value(&a.value)])).collect(),
        ),
    }
}

fn cvalue(v: &ConstantValue) -> J {
    match v {
        ConstantValue::Int(i) => node("int", "", int_v(i.value), vec![]),
        ConstantValue::Float(f) => node("float", "", float_v(f.value.as_float()), vec![]),
        ConstantValue::String(s) => node("string", "", cps(s.value.lookup()), vec![]),
        ConstantValue::Boolean(b) => leaf("bool", if b.value { "true" } else { "false" }),
        ConstantValue::Null(_) => leaf("null", ""),
        ConstantValue::Enum(e) => leaf("enum", e.value.lookup()),
        ConstantValue::List(l) => node("list", "", vec![], l.items.iter().map(cvalue).collect()),
        ConstantValue::Object(o) => node(
            "object",
            "",
            vec![],
            o.items.iter().map(|a| node("objfield", a.name.value.lookup(), vec![], vec![cvalue(&a.value)])).collect(),
        ),
    }
}

fn type_(t: &TypeAnnotation) -> J {
    match t {
        TypeAnnotation::Named(n) => leaf("named", n.name.value.lookup()),
        TypeAnnotation::List(l) => node("listtype", "", vec![], vec![type_(&l.type_)]),
        TypeAnnotation::NonNull(n) => node("nonnull", "", vec![], vec![type_(&n.type_)]),
    }
}

// ---------------------------------------------------------------- type-system documents

fn sdl_doc(doc: &SchemaDocument) -> J {
    node("doc", "", vec![], doc.definitions.iter().map(sdl_def).collect())
}

fn cdirs(ds: &[ConstantDirective]) -> Vec<J> {
    ds.iter()
        .map(|d| {
            let mut k = vec![];
            if let Some(a) = &d.arguments {
                k.push(node(
                    "args",
                    "",
                    vec![],
                    a.items.iter().map(|a| node("arg", a.name.value.lookup(), vec![], vec![cvalue(&a.value)])).collect(),
                ));
            }
            node("dir", d.name.value.lookup(), vec![], k)
        })
        .collect()
}

fn optypes(l: &List<OperationTypeDefinition>) -> Vec<J> {
    l.items
        .iter()
        .map(|o| node("optype", &o.operation.to_string(), vec![], vec![leaf("named", o.type_.value.lookup())]))
        .collect()
}

fn named_list(tag: &str, l: &[Identifier], k: &mut Vec<J>) {
    if !l.is_empty() {
        k.push(node(tag, "", vec![], l.iter().map(|i| leaf("named", i.value.lookup())).collect()));
    }
}

fn desc(d: &Option<StringNode>, tag: &str, k: &mut Vec<J>) {
    if let Some(d) = d {
        k.push(node(tag, "", cps(d.value.lookup()), vec![]));
    }
}

fn inputvalue(i: &InputValueDefinition) -> J {
    let mut k = vec![type_(&i.type_)];
    if let Some(d) = &i.default_value {
        k.push(node("default", "", vec![], vec![cvalue(d)]));
    }
    k.extend(cdirs(&i.directives));
    node("inputvalue", i.name.value.lookup(), vec![], k)
}

fn argdefs(a: &Option<List<InputValueDefinition>>, tag: &str, k: &mut Vec<J>) {
    if let Some(a) = a {
        k.push(node(tag, "", vec![], a.items.iter().map(inputvalue).collect()));
    }
}

fn fielddef(f: &FieldDefinition) -> J {
    let mut k = vec![];
    desc(&f.description, "desc", &mut k);
    desc(&f.hack_source, "hack", &mut k);
    argdefs(&f.arguments, "argdefs", &mut k);
    k.push(type_(&f.type_));
    k.extend(cdirs(&f.directives));
    node("fielddef", f.name.value.lookup(), vec![], k)
}

fn fields(f: &Option<List<FieldDefinition>>, k: &mut Vec<J>) {
    if let Some(f) = f {
        k.push(node("fields", "", vec![], f.items.iter().map(fielddef).collect()));
    }
}

fn enumvalues(v: &Option<List<EnumValueDefinition>>, k: &mut Vec<J>) {
    if let Some(v) = v {
        k.push(node(
            "values",
            "",
            vec![],
            v.items.iter().map(|e| node("enumvalue", e.name.value.lookup(), vec![], cdirs(&e.directives))).collect(),
        ));
    }
}

fn sdl_def(d: &TypeSystemDefinition) -> J {
    use TypeSystemDefinition as T;
    match d {
        T::SchemaDefinition(s) => {
            let mut k = cdirs(&s.directives);
            k.extend(optypes(&s.operation_types));
            node("schema", "", vec![], k)
        }
        T::SchemaExtension(s) => {
            let mut k = cdirs(&s.directives);
            if let Some(o) = &s.operation_types {
                k.extend(optypes(o));
            }
            node("extend_schema", "", vec![], k)
        }
        T::ScalarTypeDefinition(s) => node("scalar", s.name.value.lookup(), vec![], cdirs(&s.directives)),
        T::ScalarTypeExtension(s) => node("extend_scalar", s.name.value.lookup(), vec![], cdirs(&s.directives)),
        T::ObjectTypeDefinition(o) => {
            let mut k = vec![];
            named_list("implements", &o.interfaces, &mut k);
            k.extend(cdirs(&o.directives));
            fields(&o.fields, &mut k);
            node("type", o.name.value.lookup(), vec![], k)
        }
        T::ObjectTypeExtension(o) => {
            let mut k = vec![];
            named_list("implements", &o.interfaces, &mut k);
            k.extend(cdirs(&o.directives));
            fields(&o.fields, &mut k);
            node("extend_type", o.name.value.lookup(), vec![], k)
        }
        T::InterfaceTypeDefinition(o) => {
            let mut k = vec![];
            named_list("implements", &o.interfaces, &mut k);
            k.extend(cdirs(&o.directives));
            fields(&o.fields, &mut k);
            node("interface", o.name.value.lookup(), vec![], k)
        }
        T::InterfaceTypeExtension(o) => {
            let mut k = vec![];
            named_list("implements", &o.interfaces, &mut k);
            k.extend(cdirs(&o.directives));
            fields(&o.fields, &mut k);
            node("extend_interface", o.name.value.lookup(), vec![], k)
        }
        T::UnionTypeDefinition(u) => {
            let mut k = cdirs(&u.directives);
            named_list("members", &u.members, &mut k);
            node("union", u.name.value.lookup(), vec![], k)
        }
        T::UnionTypeExtension(u) => {
            let mut k = cdirs(&u.directives);
            named_list("members", &u.members, &mut k);
            node("extend_union", u.name.value.lookup(), vec![], k)
        }
        T::EnumTypeDefinition(e) => {
            let mut k = cdirs(&e.directives);
            enumvalues(&e.values, &mut k);
            node("enumdef", e.name.value.lookup(), vec![], k)
        }
        T::EnumTypeExtension(e) => {
            let mut k = cdirs(&e.directives);
            enumvalues(&e.values, &mut k);
            node("extend_enum", e.name.value.lookup(), vec![], k)
        }
        T::InputObjectTypeDefinition(i) => {
            let mut k = cdirs(&i.directives);
            argdefs(&i.fields, "inputfields", &mut k);
            node("input", i.name.value.lookup(), vec![], k)
        }
        T::InputObjectTypeExtension(i) => {
            let mut k = cdirs(&i.directives);
            argdefs(&i.fields, "inputfields", &mut k);
            node("extend_input", i.name.value.lookup(), vec![], k)
        }
        T::DirectiveDefinition(d) => {
            let mut k = vec![];
            desc(&d.description, "desc", &mut k);
            desc(&d.hack_source, "hack", &mut k);
            argdefs(&d.arguments, "argdefs", &mut k);
            if d.repeatable {
                k.push(leaf("repeatable", ""));
            }
            k.push(node("locations", "", vec![], d.locations.iter().map(|l| leaf("loc", &l.to_string())).collect()));
            node("directive", d.name.value.lookup(), vec![], k)
        }
    }
}
