//! Shared, deliberately dumb helpers of the `artifactdir` harness: directory snapshots,
//! materialising a tree, a small PRNG.  No property logic lives here (that is TLA+).

use std::{
    fs,
    os::unix::fs::MetadataExt,
    path::{Path, PathBuf},
    time::{Duration, SystemTime},
};

use serde_json::{Value, json};

/// mtime every entry is reset to before a step, so that any write during the step shows.
pub fn sentinel_time() -> SystemTime {
    SystemTime::UNIX_EPOCH + Duration::from_secs(1_000_000_000)
}

/// Content id of a file as the specifications see it: the bytes themselves when they are a short
/// printable-ASCII token, else an FNV-1a digest + length (only compared for equality).
pub fn content_id(bytes: &[u8]) -> String {
    if bytes.len() <= 24
        && !bytes.is_empty()
        && bytes
            .iter()
            .all(|b| b.is_ascii_alphanumeric() || *b == b'_' || *b == b'-')
    {
        return String::from_utf8_lossy(bytes).into_owned();
    }
    let mut h: u64 = 0xcbf29ce484222325;
    for b in bytes {
        h ^= *b as u64;
        h = h.wrapping_mul(0x100000001b3);
    }
    format!("h:{:016x}:{}", h, bytes.len())
}

fn rel_components(root: &Path, p: &Path) -> Vec<String> {
    p.strip_prefix(root)
        .expect("path under root")
        .components()
        .map(|c| c.as_os_str().to_string_lossy().into_owned())
        .collect()
}

fn snapshot_into(root: &Path, p: &Path, with_meta: bool, out: &mut Vec<Value>) {
    let md = match fs::symlink_metadata(p) {
        Ok(m) => m,
        Err(_) => return,
    };
    let ft = md.file_type();
    let (k, c) = if ft.is_dir() {
        ("d", "-".to_string())
    } else if ft.is_file() {
        ("f", content_id(&fs::read(p).unwrap_or_default()))
    } else if ft.is_symlink() {
        ("l", "-".to_string())
    } else {
        ("o", "-".to_string())
    };
    let mut e = json!({"p": rel_components(root, p), "k": k, "c": c});
    if with_meta {
        e["ino"] = json!(md.ino().to_string());
        e["mt"] = json!(format!("{}.{:09}", md.mtime(), md.mtime_nsec()));
    }
    out.push(e);
    if ft.is_dir() {
        let mut children: Vec<PathBuf> = match fs::read_dir(p) {
            Ok(rd) => rd.filter_map(|e| e.ok().map(|e| e.path())).collect(),
            Err(_) => vec![],
        };
        children.sort();
        for ch in children {
            snapshot_into(root, &ch, with_meta, out);
        }
    }
}

/// Every entry at and below `root` (the artifact directory): path components relative to it,
/// kind, content id, inode, mtime.  An absent root gives the empty list.
pub fn snapshot(root: &Path) -> Vec<Value> {
    let mut out = vec![];
    snapshot_into(root, root, true, &mut out);
    out
}

/// Reset the mtime of every entry below (and including) `root` to the sentinel.
pub fn reset_mtimes(root: &Path) {
    fn go(p: &Path) {
        let md = match fs::symlink_metadata(p) {
            Ok(m) => m,
            Err(_) => return,
        };
        if md.file_type().is_symlink() {
            return;
        }
        if md.is_dir() {
            if let Ok(rd) = fs::read_dir(p) {
                for e in rd.flatten() {
                    go(&e.path());
                }
            }
        }
        // after the children, so that nothing touches the directory afterwards
        if let Ok(f) = fs::File::open(p) {
            let _ = f.set_modified(sentinel_time());
        }
    }
    go(root);
}

/// Create the entries `[{"p":[..],"k":"d"|"f","c":".."}]` below `root` (parents first).
pub fn materialize(root: &Path, entries: &[Value]) {
    let mut es: Vec<&Value> = entries.iter().collect();
    es.sort_by_key(|e| e["p"].as_array().map(|a| a.len()).unwrap_or(0));
    for e in es {
        let mut p = root.to_path_buf();
        for c in e["p"].as_array().expect("p") {
            p.push(c.as_str().expect("component"));
        }
        match e["k"].as_str().expect("k") {
            "d" => fs::create_dir_all(&p).expect("mkdir init"),
            "f" => fs::write(&p, e["c"].as_str().expect("c").as_bytes()).expect("write init"),
            other => panic!("cannot materialise kind {other}"),
        }
    }
}

pub fn path_to_components(root: &Path, p: &Path) -> Value {
    match p.strip_prefix(root) {
        Ok(r) => json!(
            r.components()
                .map(|c| c.as_os_str().to_string_lossy().into_owned())
                .collect::<Vec<_>>()
        ),
        // outside the artifact directory: keep it visible, the specification will not match it
        Err(_) => json!(["<outside>", p.to_string_lossy()]),
    }
}

/// xorshift64* — every random choice of the harness comes from here (seeded by VERIF_SEED).
pub struct Rng(pub u64);
impl Rng {
    pub fn new(seed: u64) -> Self {
        Rng(seed.wrapping_mul(0x9E3779B97F4A7C15) | 1)
    }
    pub fn next(&mut self) -> u64 {
        let mut x = self.0;
        x ^= x >> 12;
        x ^= x << 25;
        x ^= x >> 27;
        self.0 = x;
        x.wrapping_mul(0x2545F4914F6CDD1D)
    }
    pub fn below(&mut self, n: usize) -> usize {
        (self.next() % (n.max(1) as u64)) as usize
    }
    pub fn chance(&mut self, percent: usize) -> bool {
        self.below(100) < percent
    }
}
