//! h_fs_e2e — drives the REAL compiler end to end on tiny real projects in temp directories:
//! `create_config` + `CompilerState::new` + `batch_compile::compile` (what `compile_and_print`
//! runs) for a batch compile, and `update_sources` + `compile(&mut state)` on the live state for a
//! watch-mode recompile (what `handle_watch_command` runs for a batch of file events).
//!
//!   h_fs_e2e <workdir>            cases (ndjson) on stdin, observations on stdout
//!
//! case : {"id":.., "steps":[
//!    {"t":"write","path":"schema.graphql"|"src/x.ts","text":".."} | {"t":"remove","path":..} |
//!    {"t":"mkinit","entries":[{p,k,c}..]}      stale content below the artifact directory |
//!    {"t":"batch","fk":kind,"at":n}            new process: new CompilerState, compile |
//!    {"t":"live","fk":kind,"at":n}             same process: update_sources(pending edits), compile ]}
//! Observation records have the shape of h_fs's (`compile`, `invalid`, `restart`, `init`).

use std::{
    cell::RefCell,
    fs, io,
    io::{BufRead, Write},
    panic::{AssertUnwindSafe, catch_unwind},
    path::{Path, PathBuf},
    rc::Rc,
};

use artifact_content::get_artifact_path_and_content;
use common_lang_types::{
    ArtifactPathAndContent, CurrentWorkingDirectory, FileSystemOperation, WithGenericNonFatalDiagnostics,
};
use graphql_network_protocol::GraphQLAndJavascriptProfile;
use h_fs::{content_id, materialize, path_to_components, reset_mtimes, snapshot};
use intern::string_key::Intern;
use isograph_compiler::{
    CompilerState,
    batch_compile::compile,
    update_sources,
    verif_exports::set_before_fs_op,
    watch::{ChangedFileKind, SourceEventKind, SourceFileEvent},
};
use isograph_config::create_config;
use serde_json::{Value, json};

type Profile = GraphQLAndJavascriptProfile;

struct Project {
    dir: PathBuf,
    art: PathBuf,
    state: Option<CompilerState<Profile>>,
    pending: Vec<(PathBuf, bool)>, // (absolute path, removed?) edited since the last compile
}

fn artifact_json(a: &ArtifactPathAndContent) -> Value {
    let mut p: Vec<String> = vec![];
    if let Some(tf) = a.artifact_path.type_and_field.as_ref() {
        p.push(tf.parent_entity_name.to_string());
        p.push(tf.selectable_name.to_string());
    }
    p.push(a.artifact_path.file_name.to_string());
    json!({"p": p, "c": content_id(a.file_content.as_bytes())})
}

/// the operations the apply loop reached, with the content id of every write (looked up by path)
fn ops_with_contents(seen: &[Value], arts: &[Value]) -> Value {
    json!(
        seen.iter()
            .map(|o| {
                let c = if o["o"] == "write" {
                    arts.iter()
                        .find(|a| a["p"] == o["p"])
                        .map(|a| a["c"].clone())
                        .unwrap_or(json!("<not an artifact>"))
                } else {
                    json!("-")
                };
                json!({"o": o["o"], "p": o["p"], "c": c})
            })
            .collect::<Vec<_>>()
    )
}

#[derive(Default)]
struct FaultLog {
    seen: Vec<Value>,
    fired: bool,
    torn: bool,
}

fn cwd_of(p: &Project) -> CurrentWorkingDirectory {
    p.dir.to_str().expect("utf8 dir").intern().into()
}

/// The artifacts of whatever `get_artifact_path_and_content` returns on success: a plain `(artifacts, stats)` tuple
/// today. The repository's own non-fatal-diagnostics wrapper is tolerated, so that the harness still builds (and C17
/// still observes) when a change moves the signature to it.
trait GeneratedArtifacts {
    fn artifacts(&self) -> &Vec<ArtifactPathAndContent>;
}
impl<S> GeneratedArtifacts for (Vec<ArtifactPathAndContent>, S) {
    fn artifacts(&self) -> &Vec<ArtifactPathAndContent> {
        &self.0
    }
}
impl<T: GeneratedArtifacts, E> GeneratedArtifacts for WithGenericNonFatalDiagnostics<T, E> {
    fn artifacts(&self) -> &Vec<ArtifactPathAndContent> {
        self.item.artifacts()
    }
}

fn compile_step(p: &mut Project, case: &Value, step_no: usize, step: &Value, out: &mut impl Write) {
    let live = step["t"] == "live";
    let fk = step["fk"].as_str().unwrap_or("none").to_string();
    let at = step["at"].as_u64().unwrap_or(0) as usize;

    reset_mtimes(&p.art);
    let pre = snapshot(&p.art);

    let log = Rc::new(RefCell::new(FaultLog::default()));
    {
        let log = log.clone();
        let fk = fk.clone();
        let art = p.art.clone();
        set_before_fs_op(Some(Box::new(move |i, op| {
            let mut l = log.borrow_mut();
            let (o, path) = match op {
                FileSystemOperation::DeleteDirectory(x) => ("deldir", x),
                FileSystemOperation::CreateDirectory(x) => ("mkdir", x),
                FileSystemOperation::WriteFile(x, _) => ("write", x),
                FileSystemOperation::DeleteFile(x) => ("delfile", x),
            };
            l.seen
                .push(json!({"o": o, "p": path_to_components(&art, path)}));
            if fk != "none" && i + 1 == at {
                l.fired = true;
                if fk.starts_with("torn") {
                    if let FileSystemOperation::WriteFile(x, _) = op {
                        if fs::write(x, b"torn").is_ok() {
                            l.torn = true;
                        }
                    }
                }
                return Err(io::Error::other("injected fault"));
            }
            Ok(())
        })));
    }

    let mut mode = if live { "live" } else { "batch" };
    let mut setup_err: Option<String> = None;
    let mut first = true;
    // ---- the code under test ----
    let outcome = catch_unwind(AssertUnwindSafe(|| {
        if !live || p.state.is_none() {
            if live {
                mode = "batch"; // no live state (killed / never started): a new process
            }
            // new process: compile_and_print = CompilerState::new + compile
            let config = create_config(&p.dir.join("isograph.config.json"), cwd_of(p));
            p.pending.clear();
            match CompilerState::<Profile>::new(config, cwd_of(p)) {
                Ok(s) => p.state = Some(s),
                Err(e) => {
                    p.state = None;
                    setup_err = Some(format!("{e}"));
                    return None;
                }
            }
        } else {
            // watch mode: one batch of file events, then compile on the live state
            let changes: Vec<SourceFileEvent> = p
                .pending
                .drain(..)
                .map(|(path, removed)| {
                    let kind = if path.file_name().map(|n| n == "schema.graphql").unwrap_or(false) {
                        ChangedFileKind::Schema
                    } else {
                        ChangedFileKind::JavaScriptSourceFile
                    };
                    let ev = if removed {
                        SourceEventKind::Remove(path)
                    } else {
                        SourceEventKind::CreateOrModify(path)
                    };
                    (ev, kind)
                })
                .collect();
            let state = p.state.as_mut().unwrap();
            if let Err(es) = update_sources(&mut state.db, &changes) {
                // handle_watch_command returns (the watcher ends) — nothing is compiled
                setup_err = Some(
                    es.iter()
                        .map(|e| format!("{e}"))
                        .collect::<Vec<_>>()
                        .join(" | "),
                );
                return None;
            }
        }
        let state = p.state.as_mut().unwrap();
        first = state.file_system_state.is_none();
        Some(compile::<Profile>(state).map(|s| s.total_artifacts_written))
    }));
    set_before_fs_op(None);

    // what the compiler generates for the sources as they are (memoised: the same computation)
    let generated: Option<Result<Vec<Value>, String>> = match (&outcome, p.state.as_ref()) {
        (Ok(Some(_)), Some(state)) => {
            match catch_unwind(AssertUnwindSafe(|| get_artifact_path_and_content(&state.db))) {
                Ok(Ok(r)) => Some(Ok(r.artifacts().iter().map(artifact_json).collect())),
                Ok(Err(ds)) => Some(Err(ds
                    .iter()
                    .map(|d| d.0.message.clone())
                    .collect::<Vec<_>>()
                    .join(" | "))),
                Err(_) => None,
            }
        }
        _ => None,
    };

    let post = snapshot(&p.art);
    let l = log.borrow();
    let base = json!({"case": case["id"], "step": step_no, "mode": mode, "pre": pre, "post": post,
                      "ops_seen": l.seen, "fk": fk, "at": at, "fired": l.fired, "torn": l.torn, "first": first});
    let mut rec = base;
    match (&outcome, generated) {
        (Err(_), _) => {
            rec["t"] = json!("panic");
            p.state = None;
        }
        (Ok(None), _) => {
            // CompilerState::new / update_sources failed: an error is reported, nothing compiled
            rec["t"] = json!("invalid");
            rec["stage"] = json!("sources");
            rec["diag"] = json!(setup_err.unwrap_or_default().chars().take(300).collect::<String>());
            if live {
                p.state = None; // handle_watch_command returned
            }
        }
        (Ok(Some(Ok(n))), Some(Ok(a))) => {
            rec["t"] = json!("compile");
            rec["res"] = json!("ok");
            rec["ops"] = ops_with_contents(&l.seen, &a);
            rec["complete"] = json!(true);
            rec["a"] = json!(a);
            rec["count"] = json!(*n as i64);
            rec["done"] = json!(l.seen.len());
        }
        (Ok(Some(Err(ds))), Some(Ok(_))) if step.get("cls").is_some() && !l.fired => {
            // The program of this step is invalid by construction (class `cls`), no fault was injected, and compile
            // reported diagnostics although artifact generation did not: still "a compile that reports an error
            // diagnostic" (C17's premise is about what compile reports, not about where it is detected).
            rec["t"] = json!("invalid");
            rec["stage"] = json!("reported-by-compile-only");
            rec["diag"] = json!(ds.iter().map(|d| d.0.message.clone()).collect::<Vec<_>>().join(" | ").chars().take(300).collect::<String>());
        }
        (Ok(Some(Err(ds))), Some(Ok(a))) => {
            // the program is valid, compile failed: an I/O error while writing
            rec["t"] = json!("compile");
            rec["res"] = json!("err");
            rec["ops"] = ops_with_contents(&l.seen, &a);
            rec["complete"] = json!(false);
            rec["a"] = json!(a);
            rec["err"] = json!(ds.iter().map(|d| d.0.message.clone()).collect::<Vec<_>>().join(" | ").chars().take(300).collect::<String>());
            rec["done"] = json!(l.seen.len().saturating_sub(1));
        }
        (Ok(Some(Err(_))), Some(Err(diag))) => {
            rec["t"] = json!("invalid");
            rec["stage"] = json!("validation");
            rec["diag"] = json!(diag.chars().take(300).collect::<String>());
        }
        (Ok(Some(Ok(_))), Some(Err(diag))) => {
            // compile succeeded although generation reports diagnostics: keep it visible
            rec["t"] = json!("inconsistent");
            rec["diag"] = json!(diag.chars().take(300).collect::<String>());
        }
        (Ok(Some(_)), None) => {
            rec["t"] = json!("panic");
            p.state = None;
        }
    }
    let killed = l.fired && fk.ends_with("kill");
    drop(l);
    if killed {
        p.state = None;
    }
    writeln!(out, "{rec}").unwrap();
}

fn run_case(work: &Path, case: &Value, out: &mut impl Write) {
    let dir = work.join(format!("p{}", std::process::id()));
    let _ = fs::remove_dir_all(&dir);
    fs::create_dir_all(dir.join("src")).expect("project dir");
    let dir = dir.canonicalize().expect("canonical project dir");
    fs::write(
        dir.join("isograph.config.json"),
        r#"{"project_root": "./src", "schema": "./schema.graphql", "options": {"module": "esmodule"}}"#,
    )
    .unwrap();
    let mut p = Project {
        art: dir.join("src").join("__isograph"),
        dir,
        state: None,
        pending: vec![],
    };
    writeln!(out, "{}", json!({"t": "init", "case": case["id"], "tree": []})).unwrap();
    for (k, step) in case["steps"].as_array().expect("steps").iter().enumerate() {
        match step["t"].as_str().expect("t") {
            "write" => {
                let path = p.dir.join(step["path"].as_str().unwrap());
                fs::create_dir_all(path.parent().unwrap()).unwrap();
                fs::write(&path, step["text"].as_str().unwrap()).unwrap();
                p.pending.push((path, false));
            }
            "remove" => {
                let path = p.dir.join(step["path"].as_str().unwrap());
                let _ = fs::remove_file(&path);
                p.pending.push((path, true));
            }
            "mkinit" => materialize(&p.art, step["entries"].as_array().unwrap()),
            "restart" => {
                p.state = None;
                writeln!(out, "{}", json!({"t": "restart", "case": case["id"], "step": k + 1})).unwrap();
            }
            "batch" | "live" => compile_step(&mut p, case, k + 1, step, out),
            other => panic!("unknown step {other}"),
        }
    }
    p.state = None;
    let _ = fs::remove_dir_all(&p.dir);
}

fn main() {
    let args: Vec<String> = std::env::args().collect();
    let work = PathBuf::from(args.get(1).expect("workdir"));
    fs::create_dir_all(&work).expect("workdir");
    std::panic::set_hook(Box::new(|_| {}));
    let stdout = io::stdout();
    let mut out = io::BufWriter::new(stdout.lock());
    for line in io::stdin().lock().lines() {
        let line = line.expect("stdin");
        if line.trim().is_empty() {
            continue;
        }
        let case: Value = serde_json::from_str(&line).expect("case json");
        run_case(&work, &case, &mut out);
    }
    out.flush().unwrap();
}
