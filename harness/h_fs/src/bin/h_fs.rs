//! h_fs — drives the REAL `batch_compile::compile` on a live `CompilerState` (a minimal real
//! project: config + schema, no iso literals) in fresh temp directories.  Only the artifact set is
//! substituted (hook `set_artifacts_override`, cfg(isographlabs_isograph_verif)); planning
//! (get_file_system_operations -> FileSystemState::recreate_all / diff), application
//! (apply_file_system_operations) and everything `compile` does around them is the code under test.
//! Process start (create_config, CompilerState::new) is the real one too.
//!
//!   h_fs replay <workdir>                      cases (ndjson) on stdin, observations on stdout
//!   h_fs random <workdir> <seed> <cases> <steps> <faults:0|1>
//!
//! case   : {"id":.., "init":[{p,k,c}..], "steps":[{"t":"compile","a":[{p,c}..],"fk":kind,"at":n} |
//!           {"t":"restart"}]}           fk in none|ioerr|kill|torn_ioerr|torn_kill, at 1-based
//! output : one record per step (see docs/artifactdir.md); snapshots carry inode + mtime; `ops` is
//!          the list of operations the apply loop reached (all of them iff `complete`).
//!
//! A "process kill before operation i" is simulated: the loop is stopped at operation i through
//! the fault hook, the CompilerState (all the state a process has) is dropped and a new process
//! is started.

use std::{
    cell::RefCell,
    fs,
    io::{self, BufRead, Write},
    panic::{AssertUnwindSafe, catch_unwind},
    path::{Path, PathBuf},
    rc::Rc,
};

use common_lang_types::{
    ArtifactPath, ArtifactPathAndContent, CurrentWorkingDirectory, EntityNameAndSelectableName,
    FileSystemOperation,
};
use graphql_network_protocol::GraphQLAndJavascriptProfile;
use h_fs::{Rng, materialize, path_to_components, reset_mtimes, snapshot};
use intern::string_key::Intern;
use isograph_compiler::{
    CompilerState,
    batch_compile::compile,
    verif_exports::{set_artifacts_override, set_before_fs_op},
};
use isograph_config::create_config;
use serde_json::{Value, json};

fn artifacts_of(a: &Value) -> Vec<ArtifactPathAndContent> {
    a.as_array()
        .expect("a")
        .iter()
        .map(|x| {
            let p: Vec<&str> = x["p"]
                .as_array()
                .expect("p")
                .iter()
                .map(|c| c.as_str().expect("comp"))
                .collect();
            let content = x["c"].as_str().expect("c").to_string();
            let (type_and_field, file_name) = match p.as_slice() {
                [f] => (None, *f),
                [e, s, f] => (
                    Some(EntityNameAndSelectableName {
                        parent_entity_name: e.intern().into(),
                        selectable_name: s.intern().into(),
                    }),
                    *f,
                ),
                _ => panic!("artifact path must have 1 or 3 components"),
            };
            ArtifactPathAndContent {
                artifact_path: ArtifactPath {
                    type_and_field,
                    file_name: file_name.intern().into(),
                },
                file_content: content.into(),
            }
        })
        .collect()
}

fn op_json(root: &Path, op: &FileSystemOperation, contents: &[String]) -> Value {
    match op {
        FileSystemOperation::DeleteDirectory(p) => {
            json!({"o": "deldir", "p": path_to_components(root, p), "c": "-"})
        }
        FileSystemOperation::CreateDirectory(p) => {
            json!({"o": "mkdir", "p": path_to_components(root, p), "c": "-"})
        }
        FileSystemOperation::WriteFile(p, idx) => {
            let c = contents
                .get(idx.idx)
                .cloned()
                .unwrap_or_else(|| "<bad index>".to_string());
            json!({"o": "write", "p": path_to_components(root, p), "c": c})
        }
        FileSystemOperation::DeleteFile(p) => {
            json!({"o": "delfile", "p": path_to_components(root, p), "c": "-"})
        }
    }
}

#[derive(Default)]
struct FaultLog {
    seen: Vec<Value>,
    fired: bool,
    torn: bool,
}

type Profile = GraphQLAndJavascriptProfile;

/// A "process": the project directory and the live CompilerState (None = no process running).
struct Session {
    dir: PathBuf,
    root: PathBuf,
    state: Option<CompilerState<Profile>>,
}

impl Session {
    /// Process start, as isograph_cli does it: create_config (which creates the artifact directory
    /// if it is missing) and CompilerState::new.
    fn start_process(&mut self) {
        let cwd: CurrentWorkingDirectory = self.dir.to_str().expect("utf8").intern().into();
        let config = create_config(&self.dir.join("isograph.config.json"), cwd);
        assert_eq!(config.artifact_directory.absolute_path, self.root);
        match CompilerState::<Profile>::new(config, cwd) {
            Ok(s) => self.state = Some(s),
            Err(e) => panic!("harness project does not load: {e}"),
        }
    }
}

/// One compile step: the REAL `batch_compile::compile` on the live state; only the artifact set is
/// substituted (hook `set_artifacts_override`), everything after artifact generation is the code under test.
fn compile_step(s: &mut Session, case: &Value, step_no: usize, step: &Value, out: &mut impl Write) {
    let arts = artifacts_of(&step["a"]);
    let contents: Vec<String> = arts
        .iter()
        .map(|a| h_fs::content_id(a.file_content.as_bytes()))
        .collect();
    let fk = step["fk"].as_str().unwrap_or("none").to_string();
    let at = step["at"].as_u64().unwrap_or(0) as usize; // 1-based; 0 = none
    if s.state.is_none() {
        s.start_process();
    }
    let first = s.state.as_ref().unwrap().file_system_state.is_none();

    reset_mtimes(&s.root);
    let pre = snapshot(&s.root);

    let log = Rc::new(RefCell::new(FaultLog::default()));
    {
        let log = log.clone();
        let fk = fk.clone();
        let root = s.root.clone();
        set_before_fs_op(Some(Box::new(move |i, op| {
            let mut l = log.borrow_mut();
            l.seen.push(op_json(&root, op, &contents));
            if fk != "none" && i + 1 == at {
                l.fired = true;
                if fk.starts_with("torn") {
                    if let FileSystemOperation::WriteFile(p, _) = op {
                        // an interrupted fs::write: the file exists with partial content
                        if fs::write(p, b"torn").is_ok() {
                            l.torn = true;
                        }
                    }
                }
                return Err(io::Error::other("injected fault"));
            }
            Ok(())
        })));
    }
    set_artifacts_override(Some(arts));
    let state = s.state.as_mut().unwrap();
    let result = catch_unwind(AssertUnwindSafe(|| {
        // ---- the code under test ----
        compile::<Profile>(state).map(|st| st.total_artifacts_written)
    }));
    set_before_fs_op(None);
    set_artifacts_override(None);

    let l = log.borrow();
    let (res, err, count) = match &result {
        Ok(Ok(n)) => ("ok", String::new(), *n as i64),
        Ok(Err(ds)) => (
            "err",
            ds.iter()
                .map(|d| d.0.message.clone())
                .collect::<Vec<_>>()
                .join(" | ")
                .chars()
                .take(200)
                .collect(),
            -1,
        ),
        Err(_) => ("panic", String::new(), -1),
    };
    // operations completed = index of the operation at which the loop stopped
    let done = match res {
        "ok" => l.seen.len(),
        _ => l.seen.len().saturating_sub(1),
    };
    let killed = l.fired && fk.ends_with("kill");
    let post = snapshot(&s.root);
    let rec = json!({
        "t": if res == "panic" { "panic" } else { "compile" }, "case": case["id"], "step": step_no,
        "a": step["a"], "fk": fk, "at": at, "fired": l.fired, "torn": l.torn,
        "first": first, "res": res, "err": err, "count": count,
        "ops": l.seen, "complete": res == "ok", "done": done, "pre": pre, "post": post,
    });
    drop(l);
    writeln!(out, "{rec}").unwrap();
    if killed || res == "panic" {
        s.state = None; // the process is gone; the next one starts right away
        s.start_process();
    }
}

fn run_case(work: &Path, case: &Value, out: &mut impl Write) {
    let dir = work.join(format!("c{}", std::process::id()));
    let _ = fs::remove_dir_all(&dir);
    fs::create_dir_all(dir.join("src")).expect("case dir");
    let dir = dir.canonicalize().expect("canonical case dir");
    fs::write(
        dir.join("isograph.config.json"),
        r#"{"project_root": "./src", "schema": "./schema.graphql", "options": {"module": "esmodule"}}"#,
    )
    .unwrap();
    fs::write(dir.join("schema.graphql"), "type Query {\n  me: String\n}\n").unwrap();
    let root = dir.join("src").join("__isograph");
    materialize(&root, case["init"].as_array().expect("init"));
    let mut s = Session {
        dir,
        root,
        state: None,
    };
    s.start_process();
    reset_mtimes(&s.root);
    writeln!(
        out,
        "{}",
        json!({"t": "init", "case": case["id"], "tree": snapshot(&s.root)})
    )
    .unwrap();
    for (k, step) in case["steps"].as_array().expect("steps").iter().enumerate() {
        match step["t"].as_str().expect("t") {
            "compile" => compile_step(&mut s, case, k + 1, step, out),
            "restart" => {
                s.state = None;
                s.start_process();
                writeln!(
                    out,
                    "{}",
                    json!({"t": "restart", "case": case["id"], "step": k + 1})
                )
                .unwrap();
            }
            other => panic!("h_fs cannot run step kind {other}"),
        }
    }
    s.state = None;
    let _ = fs::remove_dir_all(&s.dir);
}

// ------------------------------------------------------------------------------------------
// seeded random driver: longer histories over ~12 nested paths + root files
// ------------------------------------------------------------------------------------------

fn random_case(rng: &mut Rng, id: usize, steps: usize, faults: bool) -> Value {
    let ents = ["Query", "User", "Pet"];
    let sels = ["a", "b"];
    let files = ["entrypoint.ts", "resolver_reader.ts"];
    let roots = ["iso.ts", "tsconfig.json", "persisted_documents.json"];
    let contents = ["v1", "v2", "v3"];

    // initial directory: absent / empty / stale things
    let mut init: Vec<Value> = vec![];
    if rng.chance(80) {
        init.push(json!({"p": [], "k": "d", "c": "-"}));
        if rng.chance(40) {
            init.push(json!({"p": ["stale.txt"], "k": "f", "c": "v0"}));
        }
        if rng.chance(30) {
            init.push(json!({"p": ["iso.ts"], "k": if rng.chance(50) {"f"} else {"d"}, "c": "v0"}));
        }
        if rng.chance(40) {
            let as_file = rng.chance(30);
            init.push(json!({"p": ["Query"], "k": if as_file {"f"} else {"d"}, "c": "v0"}));
            if !as_file && rng.chance(70) {
                let s_file = rng.chance(30);
                init.push(json!({"p": ["Query", "a"], "k": if s_file {"f"} else {"d"}, "c": "v0"}));
                if !s_file {
                    init.push(json!({"p": ["Query", "a", "old.ts"], "k": "f", "c": "v0"}));
                    if rng.chance(50) {
                        init.push(json!({"p": ["Query", "a", "entrypoint.ts"], "k": if rng.chance(50) {"f"} else {"d"}, "c": "v1"}));
                    }
                }
            }
        }
        if rng.chance(30) {
            init.push(json!({"p": ["Gone"], "k": "d", "c": "-"}));
            init.push(json!({"p": ["Gone", "x"], "k": "d", "c": "-"}));
        }
    }

    // current artifact set as a map path -> content
    let mut cur: Vec<(Vec<String>, String)> = vec![];
    let mut out_steps: Vec<Value> = vec![];
    for _ in 0..steps {
        if rng.chance(8) {
            out_steps.push(json!({"t": "restart"}));
            continue;
        }
        // mutate the current set
        let r = rng.below(100);
        if r < 6 {
            cur.retain(|(p, _)| p.len() == 1); // no nested artifacts at all
        } else if r < 12 {
            let e = ents[rng.below(ents.len())];
            cur.retain(|(p, _)| !(p.len() == 3 && p[0] == e)); // an entity disappears
        } else if r < 18 {
            let e = ents[rng.below(ents.len())];
            let s = sels[rng.below(sels.len())];
            cur.retain(|(p, _)| !(p.len() == 3 && p[0] == e && p[1] == s)); // a selectable disappears
        }
        let n_changes = rng.below(4);
        for _ in 0..n_changes {
            let p: Vec<String> = if rng.chance(25) {
                vec![roots[rng.below(roots.len())].to_string()]
            } else {
                vec![
                    ents[rng.below(ents.len())].to_string(),
                    sels[rng.below(sels.len())].to_string(),
                    files[rng.below(files.len())].to_string(),
                ]
            };
            let pos = cur.iter().position(|(q, _)| *q == p);
            match pos {
                Some(ix) if rng.chance(35) => {
                    cur.remove(ix);
                }
                Some(ix) => cur[ix].1 = contents[rng.below(contents.len())].to_string(),
                None => cur.push((p, contents[rng.below(contents.len())].to_string())),
            }
        }
        // the compiler always generates iso.ts: the empty artifact set is outside the scope
        if cur.is_empty() {
            cur.push((vec!["iso.ts".to_string()], contents[rng.below(contents.len())].to_string()));
        }
        // shuffle the artifact order (the index of an artifact is part of the input)
        for i in (1..cur.len()).rev() {
            let j = rng.below(i + 1);
            cur.swap(i, j);
        }
        let a: Vec<Value> = cur.iter().map(|(p, c)| json!({"p": p, "c": c})).collect();
        let (fk, at) = if faults && rng.chance(25) {
            let kinds = ["ioerr", "kill", "torn_ioerr", "torn_kill"];
            (kinds[rng.below(kinds.len())], 1 + rng.below(cur.len() + 3))
        } else {
            ("none", 0)
        };
        out_steps.push(json!({"t": "compile", "a": a, "fk": fk, "at": at}));
    }
    json!({"id": id, "init": init, "steps": out_steps})
}

fn main() {
    let args: Vec<String> = std::env::args().collect();
    let mode = args.get(1).map(String::as_str).unwrap_or("");
    let work = PathBuf::from(args.get(2).expect("workdir"));
    fs::create_dir_all(&work).expect("workdir");
    // the code under test reports through `tracing`; no subscriber is installed, nothing is printed
    std::panic::set_hook(Box::new(|_| {}));
    let stdout = io::stdout();
    let mut out = io::BufWriter::new(stdout.lock());
    match mode {
        "replay" => {
            for line in io::stdin().lock().lines() {
                let line = line.expect("stdin");
                if line.trim().is_empty() {
                    continue;
                }
                let case: Value = serde_json::from_str(&line).expect("case json");
                run_case(&work, &case, &mut out);
            }
        }
        "random" => {
            let seed: u64 = args[3].parse().expect("seed");
            let cases: usize = args[4].parse().expect("cases");
            let steps: usize = args[5].parse().expect("steps");
            let faults = args[6] == "1";
            let mut rng = Rng::new(seed);
            for id in 0..cases {
                let case = random_case(&mut rng, id, steps, faults);
                writeln!(out, "{}", json!({"t": "case", "case": id, "input": case})).unwrap();
                run_case(&work, &case, &mut out);
            }
        }
        _ => {
            eprintln!("usage: h_fs replay <workdir> | h_fs random <workdir> <seed> <cases> <steps> <faults>");
            std::process::exit(2);
        }
    }
    out.flush().unwrap();
}
