//! h_isogrammar — drives the real iso-literal parser (`isograph_lang_parser::parse_iso_literal`) and the
//! real position resolution (`ResolvePosition::resolve` on the parsed declaration) and projects what
//! they did to JSON.  NO property is judged here: the predicates live in spec/isogrammar/*.tla.
//!
//! usage:  h_isogrammar parse   < cases.ndjson  > obs.ndjson      (C07)
//!         h_isogrammar resolve < cases.ndjson  > obs.ndjson      (C32)
//! input line:  {"id": <string>, "text": <string>}
//! One output line per input line, in order; each line is flushed (so a crash of the process —
//! stack overflow, abort — is attributable to the first case without an output line).
//!
//! Trusted base: the AST walks below (which location-carrying fields exist) and the pointer-identity
//! mapping from resolver path entries to walked nodes.  `H_DBGCHECK=1` cross-checks the walk against the
//! number of `Span {` occurrences in the `Debug` rendering of the declaration.

use std::io::{BufRead, Write};
use std::panic::{AssertUnwindSafe, catch_unwind};
use std::sync::Mutex;

use common_lang_types::{Diagnostic, EmbeddedLocation, Location, Span, TextSource, WithEmbeddedLocation};
use graphql_lang_types::NameValuePair;
use intern::string_key::Intern;
use isograph_lang_parser::{IsoLiteralExtractionResult, IsographLangTokenKind, parse_iso_literal};
use isograph_lang_types::{
    ClientFieldDeclaration, ClientFieldDeclarationPath, ClientObjectSelectableNameWrapperParent,
    ClientPointerDeclaration, ClientPointerDeclarationPath, ClientScalarSelectableNameWrapperParent,
    ConstantValue, DescriptionParent, EntityNameWrapperParent, EntrypointDeclaration,
    EntrypointDeclarationPath, IsographFieldDirective, IsographResolvedNode, NonConstantValue,
    ObjectSelectionPath, ScalarSelectionPath, Selection, SelectionFieldArgument, SelectionParentType,
    SelectionSet, SelectionSetParentType, SelectionSetPath, SelectionType, TypeAnnotationDeclaration,
    TypeAnnotationDeclarationParentType, UnionVariant, VariableDeclaration, VariableDeclarationParentType,
    VariableDeclarationPath, VariableNameWrapperParentType,
};
use logos::Logos;
use resolve_position::ResolvePosition;
use serde_json::{Value, json};

static LAST_PANIC: Mutex<Option<(String, String)>> = Mutex::new(None);

fn clamp(v: u32) -> i64 {
    // TLC's Json module reads 32-bit ints: clamp so that an absurd value stays absurd (> any len)
    if v > i32::MAX as u32 { i32::MAX as i64 } else { v as i64 }
}

fn ascii(s: &str) -> String {
    s.chars()
        .map(|c| if c.is_ascii_graphic() || c == ' ' { c } else { '?' })
        .take(200)
        .collect()
}

// ------------------------------------------------------------------------------------------------
// C07: walk of EVERY location-carrying field of the declaration
// ------------------------------------------------------------------------------------------------

struct Spans(Vec<Value>);

impl Spans {
    fn add(&mut self, what: &str, loc: &EmbeddedLocation) {
        self.0.push(json!({"w": what, "s": clamp(loc.span.start), "e": clamp(loc.span.end)}));
    }
}

fn walk_type(out: &mut Spans, t: &TypeAnnotationDeclaration) {
    match t {
        TypeAnnotationDeclaration::Scalar(_) => {}
        TypeAnnotationDeclaration::Union(u) => {
            for v in u.variants.iter() {
                match v {
                    UnionVariant::Scalar(_) => {}
                    UnionVariant::Plural(inner) => {
                        out.add("TypeAnnotation.inner", &inner.location);
                        walk_type(out, &inner.item);
                    }
                }
            }
        }
        TypeAnnotationDeclaration::Plural(inner) => {
            out.add("TypeAnnotation.inner", &inner.location);
            walk_type(out, &inner.item);
        }
    }
}

fn walk_const(out: &mut Spans, v: &ConstantValue) {
    match v {
        ConstantValue::List(items) => {
            for i in items {
                out.add("ConstantValue.item", &i.location);
                walk_const(out, &i.item);
            }
        }
        ConstantValue::Object(entries) => {
            for NameValuePair { name, value } in entries {
                out.add("ConstantValue.key", &name.location);
                out.add("ConstantValue.value", &value.location);
                walk_const(out, &value.item);
            }
        }
        _ => {}
    }
}

fn walk_value(out: &mut Spans, v: &NonConstantValue) {
    match v {
        NonConstantValue::List(items) => {
            for i in items {
                out.add("Value.item", &i.location);
                walk_value(out, &i.item);
            }
        }
        NonConstantValue::Object(entries) => {
            for NameValuePair { name, value } in entries {
                out.add("Value.key", &name.location);
                out.add("Value.value", &value.location);
                walk_value(out, &value.item);
            }
        }
        _ => {}
    }
}

fn walk_args(out: &mut Spans, args: &[WithEmbeddedLocation<SelectionFieldArgument>]) {
    for a in args {
        out.add("Argument", &a.location);
        out.add("Argument.name", &a.item.name.location);
        out.add("Argument.value", &a.item.value.location);
        walk_value(out, &a.item.value.item);
    }
}

fn walk_directives(
    out: &mut Spans,
    sk: &mut Skel,
    d: &WithEmbeddedLocation<Vec<WithEmbeddedLocation<IsographFieldDirective>>>,
) {
    out.add("DirectiveSet", &d.location);
    for x in d.item.iter() {
        sk.nargs += x.item.arguments.len() as u32;
        out.add("Directive", &x.location);
        out.add("Directive.name", &x.item.name.location);
        walk_args(out, &x.item.arguments);
    }
}

fn walk_vars(out: &mut Spans, vars: &[WithEmbeddedLocation<VariableDeclaration>]) {
    for v in vars {
        out.add("VariableDeclaration", &v.location);
        out.add("VariableDeclaration.name", &v.item.name.location);
        out.add("VariableDeclaration.type", &v.item.type_.location);
        walk_type(out, &v.item.type_.item);
        if let Some(d) = &v.item.default_value {
            out.add("VariableDeclaration.default", &d.location);
            walk_const(out, &d.item);
        }
    }
}

struct Skel {
    nsel: u32,
    nobj: u32,
    nalias: u32,
    nargs: u32,
}

fn walk_selset(out: &mut Spans, sk: &mut Skel, s: &WithEmbeddedLocation<SelectionSet>) {
    out.add("SelectionSet", &s.location);
    for sel in s.item.selections.iter() {
        out.add("Selection", &sel.location);
        sk.nsel += 1;
        match &sel.item {
            SelectionType::Scalar(x) => {
                out.add("Selection.name", &x.name.location);
                if let Some(a) = &x.reader_alias {
                    out.add("Selection.alias", &a.location);
                    sk.nalias += 1;
                }
                sk.nargs += x.arguments.len() as u32;
                walk_args(out, &x.arguments);
            }
            SelectionType::Object(x) => {
                sk.nobj += 1;
                out.add("Selection.name", &x.name.location);
                if let Some(a) = &x.reader_alias {
                    out.add("Selection.alias", &a.location);
                    sk.nalias += 1;
                }
                sk.nargs += x.arguments.len() as u32;
                walk_args(out, &x.arguments);
                walk_selset(out, sk, &x.selection_set);
            }
        }
    }
}

/// Returns (kind, spans, semantic tokens, skeleton)
fn project_decl(r: &IsoLiteralExtractionResult) -> (&'static str, Vec<Value>, Vec<Value>, Value) {
    let mut out = Spans(vec![]);
    let mut sk = Skel { nsel: 0, nobj: 0, nalias: 0, nargs: 0 };
    let (kind, ptype, fname, nvar, ndesc, ndir);
    match r {
        IsoLiteralExtractionResult::ClientFieldDeclaration(d) => {
            kind = "field";
            out.add("ClientFieldDeclaration", &d.location);
            let x = &d.item;
            out.add("parent_type", &x.parent_type.location);
            out.add("client_field_name", &x.client_field_name.location);
            if let Some(desc) = &x.description {
                out.add("description", &desc.location);
            }
            walk_vars(&mut out, &x.variable_definitions);
            walk_directives(&mut out, &mut sk, &x.directive_set);
            walk_selset(&mut out, &mut sk, &x.selection_set);
            ptype = x.parent_type.item.to_string();
            fname = x.client_field_name.item.to_string();
            nvar = x.variable_definitions.len();
            ndesc = x.description.is_some() as u32;
            ndir = x.directive_set.item.len();
        }
        IsoLiteralExtractionResult::ClientPointerDeclaration(d) => {
            kind = "pointer";
            out.add("ClientPointerDeclaration", &d.location);
            let x = &d.item;
            out.add("parent_type", &x.parent_type.location);
            out.add("client_pointer_name", &x.client_pointer_name.location);
            out.add("target_type", &x.target_type.location);
            walk_type(&mut out, &x.target_type.item);
            if let Some(desc) = &x.description {
                out.add("description", &desc.location);
            }
            walk_vars(&mut out, &x.variable_definitions);
            walk_directives(&mut out, &mut sk, &x.directives);
            walk_selset(&mut out, &mut sk, &x.selection_set);
            ptype = x.parent_type.item.to_string();
            fname = x.client_pointer_name.item.to_string();
            nvar = x.variable_definitions.len();
            ndesc = x.description.is_some() as u32;
            ndir = x.directives.item.len();
        }
        IsoLiteralExtractionResult::EntrypointDeclaration(d) => {
            kind = "entrypoint";
            out.add("EntrypointDeclaration", &d.location);
            let x = &d.item;
            out.add("parent_type", &x.parent_type.location);
            out.add("client_field_name", &x.client_field_name.location);
            out.add("entrypoint_keyword", &x.entrypoint_keyword.location);
            out.add("dot", &x.dot.location);
            walk_directives(&mut out, &mut sk, &x.directive_set);
            ptype = x.parent_type.item.to_string();
            fname = x.client_field_name.item.to_string();
            nvar = 0;
            ndesc = 0;
            ndir = x.directive_set.item.len();
        }
    }
    let toks = r
        .semantic_tokens()
        .iter()
        .map(|t| {
            json!({"s": clamp(t.location.span.start), "e": clamp(t.location.span.end),
                   "t": t.item.lsp_semantic_token.0})
        })
        .collect::<Vec<_>>();
    let skel = json!({"kind": kind, "ptype": ascii(&ptype), "fname": ascii(&fname), "nvar": nvar,
                      "nsel": sk.nsel, "nobj": sk.nobj, "nalias": sk.nalias, "nargs": sk.nargs,
                      "ndesc": ndesc, "ndir": ndir});
    (kind, out.0, toks, skel)
}

fn project_diag(d: &Diagnostic) -> Value {
    match d.location() {
        None => json!({"loc": "none"}),
        Some(Location::Generated) => json!({"loc": "gen"}),
        Some(Location::Embedded(e)) => {
            json!({"loc": "emb", "s": clamp(e.span.start), "e": clamp(e.span.end)})
        }
    }
}

fn non_boundaries(text: &str) -> Vec<usize> {
    (0..=text.len()).filter(|i| !text.is_char_boundary(*i)).collect()
}

fn text_source() -> TextSource {
    TextSource {
        relative_path_to_source_file: "src/verif_case.ts".intern().into(),
        span: None,
    }
}

fn real_parse(text: &str) -> Result<Result<IsoLiteralExtractionResult, Diagnostic>, (String, String)> {
    *LAST_PANIC.lock().unwrap() = None;
    let owned = text.to_string();
    let r = catch_unwind(AssertUnwindSafe(|| {
        parse_iso_literal(
            owned,
            "src/verif_case.ts".intern().into(),
            Some("verifExport".to_string()),
            text_source(),
        )
    }));
    match r {
        Ok(x) => Ok(x),
        Err(_) => Err(LAST_PANIC
            .lock()
            .unwrap()
            .take()
            .unwrap_or_else(|| ("?".to_string(), "?".to_string()))),
    }
}

/// The REAL lexer's token stream as [k, nl] records (+ EOF): k is the token class the grammar of
/// spec/isogrammar/IsoGrammar.tla is written in, nl = "the white space before the token contains a line feed".
fn project_lex(text: &str) -> Option<Vec<Value>> {
    const WORDS: [&str; 10] = [
        "field", "pointer", "entrypoint", "to", "true", "false", "null", "loadable", "updatable",
        "lazyLoadArtifact",
    ];
    let owned = text.to_string();
    catch_unwind(AssertUnwindSafe(|| {
        let mut out = vec![];
        let mut lexer = IsographLangTokenKind::lexer(&owned);
        let mut last_end = 0usize;
        while let Some(kind) = lexer.next() {
            let span = lexer.span();
            let nl = owned.get(last_end..span.start).map(|w| w.contains('\n')).unwrap_or(false);
            last_end = span.end;
            let slice = lexer.slice();
            let k: &str = match kind {
                IsographLangTokenKind::Identifier => {
                    if WORDS.contains(&slice) { slice } else { "id" }
                }
                IsographLangTokenKind::IntegerLiteral => "int",
                IsographLangTokenKind::StringLiteral => "str",
                IsographLangTokenKind::BlockStringLiteral => "bstr",
                IsographLangTokenKind::At => "@",
                IsographLangTokenKind::CloseBrace => "}",
                IsographLangTokenKind::CloseBracket => "]",
                IsographLangTokenKind::CloseParen => ")",
                IsographLangTokenKind::Colon => ":",
                IsographLangTokenKind::Dollar => "$",
                IsographLangTokenKind::Equals => "=",
                IsographLangTokenKind::Exclamation => "!",
                IsographLangTokenKind::OpenBrace => "{",
                IsographLangTokenKind::OpenBracket => "[",
                IsographLangTokenKind::OpenParen => "(",
                IsographLangTokenKind::Period => ".",
                IsographLangTokenKind::Comma => ",",
                _ => "ERR",
            };
            out.push(json!({"k": k, "nl": nl}));
        }
        let nl = owned.get(last_end..).map(|w| w.contains('\n')).unwrap_or(false);
        out.push(json!({"k": "EOF", "nl": nl}));
        out
    }))
    .ok()
}

fn do_parse(id: &Value, text: &str) -> Value {
    let nb = non_boundaries(text);
    let mut rec = json!({"id": id, "len": text.len(), "nb": nb});
    let o = rec.as_object_mut().unwrap();
    if text.len() <= 400 {
        if let Some(lex) = project_lex(text) {
            o.insert("lex".into(), json!(lex));
        }
    }
    match real_parse(text) {
        Err((msg, at)) => {
            o.insert("outcome".into(), json!("panic"));
            o.insert("panic".into(), json!({"msg": ascii(&msg), "at": ascii(&at)}));
            o.insert("kind".into(), json!("none"));
            o.insert("ast".into(), json!([]));
            o.insert("toks".into(), json!([]));
            o.insert("diag".into(), json!([]));
        }
        Ok(Err(d)) => {
            o.insert("outcome".into(), json!("diag"));
            o.insert("kind".into(), json!("none"));
            o.insert("ast".into(), json!([]));
            o.insert("toks".into(), json!([]));
            o.insert("diag".into(), json!([project_diag(&d)]));
            o.insert("msg".into(), json!(ascii(&d.0.message)));
        }
        Ok(Ok(decl)) => {
            let (kind, ast, toks, skel) = project_decl(&decl);
            if std::env::var("H_DBGCHECK").is_ok() {
                let dbg = format!("{:?}", decl);
                let n = dbg.matches("Span {").count();
                o.insert("nspan_dbg".into(), json!(n));
                o.insert("nspan_walk".into(), json!(ast.len() + toks.len()));
            }
            o.insert("outcome".into(), json!("decl"));
            o.insert("kind".into(), json!(kind));
            o.insert("ast".into(), json!(ast));
            o.insert("toks".into(), json!(toks));
            o.insert("diag".into(), json!([]));
            o.insert("skel".into(), skel);
        }
    }
    rec
}

// ------------------------------------------------------------------------------------------------
// C32: independent walk of the nodes of resolvable kinds + the chain returned by the real resolver
// ------------------------------------------------------------------------------------------------

struct Node {
    kind: &'static str,
    addr: usize,
    s: u32,
    e: u32,
    parent: usize, // 1-based index, 0 = none
    nested_type: bool,
}

fn addr<T>(x: &T) -> usize {
    x as *const T as usize
}

struct Nodes(Vec<Node>);

impl Nodes {
    fn add<T>(&mut self, kind: &'static str, item: &T, loc: &EmbeddedLocation, parent: usize) -> usize {
        self.0.push(Node { kind, addr: addr(item), s: loc.span.start, e: loc.span.end, parent, nested_type: false });
        self.0.len()
    }
    fn find(&self, kind: &str, a: usize) -> usize {
        self.0.iter().position(|n| n.kind == kind && n.addr == a).map(|i| i + 1).unwrap_or(0)
    }
}

fn nodes_type(ns: &mut Nodes, t: &WithEmbeddedLocation<TypeAnnotationDeclaration>, parent: usize, nested: bool) {
    let me = ns.add("TypeAnnotation", &t.item, &t.location, parent);
    ns.0[me - 1].nested_type = nested;
    match &t.item {
        TypeAnnotationDeclaration::Scalar(_) => {}
        TypeAnnotationDeclaration::Union(u) => {
            for v in u.variants.iter() {
                if let UnionVariant::Plural(inner) = v {
                    nodes_type(ns, inner, me, true);
                }
            }
        }
        TypeAnnotationDeclaration::Plural(inner) => nodes_type(ns, inner, me, true),
    }
}

fn nodes_vars(ns: &mut Nodes, vars: &[WithEmbeddedLocation<VariableDeclaration>], parent: usize) {
    for v in vars {
        let me = ns.add("VariableDeclarationInner", &v.item, &v.location, parent);
        ns.add("VariableNameWrapper", &v.item.name.item, &v.item.name.location, me);
        nodes_type(ns, &v.item.type_, me, false);
    }
}

fn nodes_selset(ns: &mut Nodes, s: &WithEmbeddedLocation<SelectionSet>, parent: usize) {
    let me = ns.add("SelectionSet", &s.item, &s.location, parent);
    for sel in s.item.selections.iter() {
        let sel: &WithEmbeddedLocation<Selection> = sel;
        match &sel.item {
            SelectionType::Scalar(x) => {
                ns.add("ScalarSelection", x, &sel.location, me);
            }
            SelectionType::Object(x) => {
                let o = ns.add("ObjectSelection", x, &sel.location, me);
                nodes_selset(ns, &x.selection_set, o);
            }
        }
    }
}

fn nodes_of(r: &IsoLiteralExtractionResult) -> Nodes {
    let mut ns = Nodes(vec![]);
    match r {
        IsoLiteralExtractionResult::ClientFieldDeclaration(d) => {
            let x: &ClientFieldDeclaration = &d.item;
            let me = ns.add("ClientFieldDeclaration", x, &d.location, 0);
            ns.add("EntityNameWrapper", &x.parent_type.item, &x.parent_type.location, me);
            ns.add("ClientScalarSelectableNameWrapper", &x.client_field_name.item, &x.client_field_name.location, me);
            if let Some(desc) = &x.description {
                ns.add("Description", &desc.item, &desc.location, me);
            }
            nodes_vars(&mut ns, &x.variable_definitions, me);
            nodes_selset(&mut ns, &x.selection_set, me);
        }
        IsoLiteralExtractionResult::ClientPointerDeclaration(d) => {
            let x: &ClientPointerDeclaration = &d.item;
            let me = ns.add("ClientPointerDeclaration", x, &d.location, 0);
            ns.add("EntityNameWrapper", &x.parent_type.item, &x.parent_type.location, me);
            ns.add("ClientObjectSelectableNameWrapper", &x.client_pointer_name.item, &x.client_pointer_name.location, me);
            nodes_type(&mut ns, &x.target_type, me, false);
            if let Some(desc) = &x.description {
                ns.add("Description", &desc.item, &desc.location, me);
            }
            nodes_vars(&mut ns, &x.variable_definitions, me);
            nodes_selset(&mut ns, &x.selection_set, me);
        }
        IsoLiteralExtractionResult::EntrypointDeclaration(d) => {
            let x: &EntrypointDeclaration = &d.item;
            let me = ns.add("EntrypointDeclaration", x, &d.location, 0);
            ns.add("EntityNameWrapper", &x.parent_type.item, &x.parent_type.location, me);
            ns.add("ClientScalarSelectableNameWrapper", &x.client_field_name.item, &x.client_field_name.location, me);
        }
    }
    ns
}

type Chain = Vec<(&'static str, usize)>;

fn ch_field(p: &ClientFieldDeclarationPath, out: &mut Chain) {
    out.push(("ClientFieldDeclaration", addr(p.inner)));
}
fn ch_pointer(p: &ClientPointerDeclarationPath, out: &mut Chain) {
    out.push(("ClientPointerDeclaration", addr(p.inner)));
}
fn ch_entry(p: &EntrypointDeclarationPath, out: &mut Chain) {
    out.push(("EntrypointDeclaration", addr(p.inner)));
}
fn ch_vardecl(p: &VariableDeclarationPath, out: &mut Chain) {
    out.push(("VariableDeclarationInner", addr(p.inner)));
    match &p.parent {
        VariableDeclarationParentType::ClientFieldDeclaration(q) => ch_field(q, out),
        VariableDeclarationParentType::ClientPointerDeclaration(q) => ch_pointer(q, out),
    }
}
fn ch_selset(p: &SelectionSetPath, out: &mut Chain) {
    out.push(("SelectionSet", addr(p.inner)));
    match &p.parent {
        SelectionSetParentType::ObjectSelection(q) => ch_object(q, out),
        SelectionSetParentType::ClientFieldDeclaration(q) => ch_field(q, out),
        SelectionSetParentType::ClientPointerDeclaration(q) => ch_pointer(q, out),
    }
}
fn ch_selparent(p: &SelectionParentType, out: &mut Chain) {
    match p {
        SelectionParentType::SelectionSet(q) => ch_selset(q, out),
    }
}
fn ch_object(p: &ObjectSelectionPath, out: &mut Chain) {
    out.push(("ObjectSelection", addr(p.inner)));
    ch_selparent(&p.parent, out);
}
fn ch_scalar(p: &ScalarSelectionPath, out: &mut Chain) {
    out.push(("ScalarSelection", addr(p.inner)));
    ch_selparent(&p.parent, out);
}

fn chain_of(n: &IsographResolvedNode) -> Chain {
    let mut out: Chain = vec![];
    match n {
        IsographResolvedNode::EntrypointDeclaration(p) => ch_entry(p, &mut out),
        IsographResolvedNode::ClientFieldDeclaration(p) => ch_field(p, &mut out),
        IsographResolvedNode::ClientPointerDeclaration(p) => ch_pointer(p, &mut out),
        IsographResolvedNode::EntityNameWrapper(p) => {
            out.push(("EntityNameWrapper", addr(p.inner)));
            match &p.parent {
                EntityNameWrapperParent::EntrypointDeclaration(q) => ch_entry(q, &mut out),
                EntityNameWrapperParent::ClientFieldDeclaration(q) => ch_field(q, &mut out),
                EntityNameWrapperParent::ClientPointerDeclaration(q) => ch_pointer(q, &mut out),
            }
        }
        IsographResolvedNode::Description(p) => {
            out.push(("Description", addr(p.inner)));
            match &p.parent {
                DescriptionParent::ClientFieldDeclaration(q) => ch_field(q, &mut out),
                DescriptionParent::ClientPointerDeclaration(q) => ch_pointer(q, &mut out),
            }
        }
        IsographResolvedNode::ScalarSelection(p) => ch_scalar(p, &mut out),
        IsographResolvedNode::ObjectSelection(p) => ch_object(p, &mut out),
        IsographResolvedNode::ClientScalarSelectableNameWrapper(p) => {
            out.push(("ClientScalarSelectableNameWrapper", addr(p.inner)));
            match &p.parent {
                ClientScalarSelectableNameWrapperParent::EntrypointDeclaration(q) => ch_entry(q, &mut out),
                ClientScalarSelectableNameWrapperParent::ClientFieldDeclaration(q) => ch_field(q, &mut out),
            }
        }
        IsographResolvedNode::ClientObjectSelectableNameWrapper(p) => {
            out.push(("ClientObjectSelectableNameWrapper", addr(p.inner)));
            match &p.parent {
                ClientObjectSelectableNameWrapperParent::ClientPointerDeclaration(q) => ch_pointer(q, &mut out),
            }
        }
        IsographResolvedNode::SelectionSet(p) => ch_selset(p, &mut out),
        IsographResolvedNode::TypeAnnotation(p) => {
            out.push(("TypeAnnotation", addr(p.inner)));
            match &p.parent {
                TypeAnnotationDeclarationParentType::ClientPointerDeclaration(q) => ch_pointer(q, &mut out),
                TypeAnnotationDeclarationParentType::VariableDeclarationInner(q) => ch_vardecl(q, &mut out),
            }
        }
        IsographResolvedNode::VariableNameWrapper(p) => {
            out.push(("VariableNameWrapper", addr(p.inner)));
            match &p.parent {
                VariableNameWrapperParentType::VariableDeclarationInner(q) => ch_vardecl(q, &mut out),
            }
        }
        IsographResolvedNode::VariableDeclarationInner(p) => ch_vardecl(p, &mut out),
    }
    out
}

fn do_resolve(id: &Value, text: &str) -> Value {
    let nb = non_boundaries(text);
    let mut rec = json!({"id": id, "len": text.len()});
    let o = rec.as_object_mut().unwrap();
    match real_parse(text) {
        Err((msg, at)) => {
            o.insert("outcome".into(), json!("panic"));
            o.insert("panic".into(), json!({"msg": ascii(&msg), "at": ascii(&at)}));
            o.insert("nodes".into(), json!([]));
            o.insert("res".into(), json!([]));
        }
        Ok(Err(_)) => {
            o.insert("outcome".into(), json!("diag"));
            o.insert("nodes".into(), json!([]));
            o.insert("res".into(), json!([]));
        }
        Ok(Ok(decl)) => {
            let ns = nodes_of(&decl);
            let nodes = ns
                .0
                .iter()
                .map(|n| json!({"k": n.kind, "s": clamp(n.s), "e": clamp(n.e), "p": n.parent, "nt": n.nested_type}))
                .collect::<Vec<_>>();
            let mut res = vec![];
            for off in 0..=text.len() {
                if nb.contains(&off) {
                    continue;
                }
                *LAST_PANIC.lock().unwrap() = None;
                let r = catch_unwind(AssertUnwindSafe(|| {
                    let node = decl.resolve((), Span::new(off as u32, off as u32));
                    chain_of(&node)
                }));
                match r {
                    Ok(chain) => {
                        let ids = chain.iter().map(|(k, a)| ns.find(k, *a)).collect::<Vec<_>>();
                        let kinds = chain.iter().map(|(k, _)| *k).collect::<Vec<_>>();
                        res.push(json!({"o": off, "chain": ids, "kinds": kinds, "r": "ok"}));
                    }
                    Err(_) => {
                        let (msg, at) = LAST_PANIC.lock().unwrap().take().unwrap_or_default();
                        res.push(json!({"o": off, "chain": [], "kinds": [], "r": "panic",
                                        "panic": {"msg": ascii(&msg), "at": ascii(&at)}}));
                    }
                }
            }
            o.insert("outcome".into(), json!("decl"));
            o.insert("nodes".into(), json!(nodes));
            o.insert("res".into(), json!(res));
        }
    }
    rec
}

// ------------------------------------------------------------------------------------------------

fn run(mode: String) {
    std::panic::set_hook(Box::new(|info| {
        let msg = if let Some(s) = info.payload().downcast_ref::<&str>() {
            s.to_string()
        } else if let Some(s) = info.payload().downcast_ref::<String>() {
            s.clone()
        } else {
            "non-string panic payload".to_string()
        };
        let at = info
            .location()
            .map(|l| {
                // path relative to the crates directory so that the text is stable across checkouts
                let f = l.file();
                let f = f.rfind("/crates/").map(|i| &f[i + 1..]).unwrap_or(f);
                format!("{}:{}", f, l.line())
            })
            .unwrap_or_default();
        *LAST_PANIC.lock().unwrap() = Some((msg, at));
    }));
    let stdin = std::io::stdin();
    let stdout = std::io::stdout();
    let mut out = stdout.lock();
    for line in stdin.lock().lines() {
        let line = line.expect("stdin");
        if line.trim().is_empty() {
            continue;
        }
        let v: Value = serde_json::from_str(&line).expect("input json");
        let text = v["text"].as_str().expect("text");
        let rec = match mode.as_str() {
            "parse" => do_parse(&v["id"], text),
            "resolve" => do_resolve(&v["id"], text),
            _ => panic!("unknown mode"),
        };
        writeln!(out, "{}", rec).unwrap();
        out.flush().unwrap();
    }
}

fn main() {
    let mode = std::env::args().nth(1).expect("mode: parse|resolve");
    let mb: usize = std::env::var("H_STACK_MB").ok().and_then(|s| s.parse().ok()).unwrap_or(8);
    let t = std::thread::Builder::new()
        .stack_size(mb << 20)
        .spawn(move || run(mode))
        .unwrap();
    if t.join().is_err() {
        std::process::exit(3);
    }
}
