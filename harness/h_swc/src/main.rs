//! h_swc — runs the REAL SWC visitor (`swc_isograph_plugin::compile_iso_literal_visitor`) on a small module
//! that contains one iso literal, and projects the transformed module to JSON.  The real iso-literal parser
//! (`parse_iso_literal`) is run on the same literal text as the reference for "what the compiler accepts"
//! and for the classification entrypoint vs field/pointer.  No property is judged here (spec/isogrammar/SwcTrace.tla).
//!
//! stdin (ndjson): {"id", "literal", "file_dir": [segs], "project_root": [segs], "artifact_dir": [segs] | null,
//!                  "module": "esmodule" | "commonjs", "shape": "call" | "nocall"}
//!   paths are relative to the project root directory /proj (where isograph.config.json lives).
//! stdout (ndjson): {"id", "parser": {...}, "out": {...}} — see project().

use std::io::{BufRead, Write};
use std::panic::{AssertUnwindSafe, catch_unwind};
use std::path::Path;

use common_lang_types::TextSource;
use intern::string_key::Intern;
use isograph_config::IsographProjectConfig;
use isograph_lang_parser::{IsoLiteralExtractionResult, parse_iso_literal};
use serde_json::{Value, json};
use swc_core::common::errors::{HANDLER, Handler};
use swc_core::common::sync::Lrc;
use swc_core::common::{FileName, GLOBALS, Globals, SourceMap};
use swc_core::ecma::ast::*;
use swc_core::ecma::codegen::{Config, Emitter, text_writer::JsWriter};
use swc_core::ecma::parser::{EsSyntax, Syntax, parse_file_as_module};
use swc_isograph_plugin::compile_iso_literal_visitor;

const ROOT: &str = "/proj";
const ISO_ITEM: usize = 2; // index (0-based) of the statement that holds the iso literal in the template below

fn ascii(s: &str) -> String {
    let mut o = String::new();
    for c in s.chars() {
        if c.is_ascii() && (c.is_ascii_graphic() || c == ' ') {
            o.push(c);
        } else {
            o.push_str(&format!("\\u{{{:x}}}", c as u32));
        }
    }
    o
}

fn module_text(literal: &str, shape: &str) -> String {
    let call = if shape == "call" {
        "(function Component(props) { return props.z; })"
    } else {
        ""
    };
    format!(
        "import keepImport from \"./keep\";\nconst before = keepFn(1, \"two\", a?.b);\nexport const T = iso(`{literal}`){call};\nfunction after() {{ return keepOther(iso); }}\n"
    )
}

fn print_item(cm: &Lrc<SourceMap>, item: &ModuleItem) -> String {
    let mut buf = vec![];
    {
        let wr = JsWriter::new(cm.clone(), "\n", &mut buf, None);
        let mut e = Emitter { cfg: Config::default(), cm: cm.clone(), comments: None, wr };
        e.emit_module_item(item).expect("emit");
    }
    String::from_utf8_lossy(&buf).trim().to_string()
}

fn print_expr(cm: &Lrc<SourceMap>, e: &Expr) -> String {
    let item = ModuleItem::Stmt(Stmt::Expr(ExprStmt { span: Default::default(), expr: Box::new(e.clone()) }));
    print_item(cm, &item)
}

/// the initialiser of `export const T = <init>`
fn init_of(item: &ModuleItem) -> Option<&Expr> {
    if let ModuleItem::ModuleDecl(ModuleDecl::ExportDecl(ExportDecl { decl: Decl::Var(v), .. })) = item {
        if let Some(d) = v.decls.first() {
            return d.init.as_deref();
        }
    }
    None
}

fn is_iso_call(e: &Expr) -> bool {
    if let Expr::Call(CallExpr { callee: Callee::Expr(c), .. }) = e {
        match &**c {
            Expr::Ident(i) => i.sym == *"iso",
            inner @ Expr::Call(_) => is_iso_call(inner),
            _ => false,
        }
    } else {
        false
    }
}

fn classify(cm: &Lrc<SourceMap>, e: &Expr, fn_arg_text: &str, orig_text: &str) -> Value {
    let text = print_expr(cm, e);
    if text == orig_text {
        return json!({"t": "untouched"});
    }
    match e {
        Expr::Ident(i) => json!({"t": "ident", "name": ascii(&i.sym)}),
        Expr::Member(MemberExpr { obj, prop: MemberProp::Ident(p), .. }) if p.sym == *"default" => {
            if let Expr::Call(CallExpr { callee: Callee::Expr(c), args, .. }) = &**obj {
                if let (Expr::Ident(i), Some(a)) = (&**c, args.first()) {
                    if i.sym == *"require" {
                        if let Expr::Lit(Lit::Str(s)) = &*a.expr {
                            let p = s.value.to_string();
                            return json!({"t": "require", "path": p.split('/').map(ascii).collect::<Vec<_>>()});
                        }
                    }
                }
            }
            json!({"t": "other", "text": ascii(&text)})
        }
        Expr::Arrow(a) => {
            let is_identity = a.params.len() == 1
                && matches!((&a.params[0], &*a.body),
                    (Pat::Ident(p), BlockStmtOrExpr::Expr(b)) if matches!(&**b, Expr::Ident(i) if i.sym == p.id.sym));
            if is_identity { json!({"t": "identity"}) } else { json!({"t": "other", "text": ascii(&text)}) }
        }
        _ if text == fn_arg_text => json!({"t": "fnarg"}),
        _ if is_iso_call(e) => json!({"t": "isocall-changed"}),
        _ => json!({"t": "other", "text": ascii(&text)}),
    }
}

fn project(case: &Value) -> Value {
    let literal = case["literal"].as_str().unwrap();
    let shape = case["shape"].as_str().unwrap();
    let segs = |v: &Value| v.as_array().unwrap().iter().map(|s| s.as_str().unwrap().to_string()).collect::<Vec<_>>();
    let rel = |s: &[String]| if s.is_empty() { ".".to_string() } else { format!("./{}", s.join("/")) };
    let file_dir = segs(&case["file_dir"]);
    let mut cfg = json!({
        "project_root": rel(&segs(&case["project_root"])),
        "schema": "./schema.graphql",
        "options": {"module": case["module"]},
    });
    if !case["artifact_dir"].is_null() {
        cfg["artifact_directory"] = json!(rel(&segs(&case["artifact_dir"])));
    }
    let config: IsographProjectConfig = serde_json::from_value(cfg).expect("config");
    let filename = format!("{}/{}{}Comp.tsx", ROOT, file_dir.join("/"), if file_dir.is_empty() { "" } else { "/" });

    let src = module_text(literal, shape);
    let cm: Lrc<SourceMap> = Default::default();
    let fm = cm.new_source_file(Lrc::new(FileName::Custom("input.js".into())), src);
    let mut errs = vec![];
    let module = match parse_file_as_module(
        &fm,
        Syntax::Es(EsSyntax { jsx: true, ..Default::default() }),
        EsVersion::latest(),
        None,
        &mut errs,
    ) {
        Ok(m) => m,
        Err(_) => return json!({"t": "js-parse-error"}),
    };
    let in_items = module.body.iter().map(|i| print_item(&cm, i)).collect::<Vec<_>>();
    let orig_init = init_of(&module.body[ISO_ITEM]).map(|e| print_expr(&cm, e)).unwrap_or_default();
    let fn_arg_text = {
        // the argument of the outer call, printed the same way
        let mut t = String::new();
        if let Some(Expr::Call(CallExpr { args, .. })) = init_of(&module.body[ISO_ITEM]) {
            if shape == "call" {
                if let Some(a) = args.first() {
                    t = print_expr(&cm, &a.expr);
                }
            }
        }
        t
    };

    let handler = Handler::with_emitter_writer(Box::new(std::io::sink()), Some(cm.clone()));
    let result = catch_unwind(AssertUnwindSafe(|| {
        GLOBALS.set(&Globals::new(), || {
            HANDLER.set(&handler, || {
                Program::Module(module).apply(compile_iso_literal_visitor(
                    &config,
                    Path::new(&filename),
                    Path::new(ROOT),
                    None,
                ))
            })
        })
    }));
    let program = match result {
        Ok(p) => p,
        Err(_) => return json!({"t": "panic"}),
    };
    let body = match program {
        Program::Module(m) => m.body,
        Program::Script(_) => return json!({"t": "not-a-module"}),
    };
    let out_items = body.iter().map(|i| print_item(&cm, i)).collect::<Vec<_>>();
    let added = out_items.len() as i64 - in_items.len() as i64;
    let mut imports = vec![];
    if added > 0 {
        for item in body.iter().take(added as usize) {
            if let ModuleItem::ModuleDecl(ModuleDecl::Import(d)) = item {
                let local = d.specifiers.first().and_then(|s| match s {
                    ImportSpecifier::Default(x) => Some(x.local.sym.to_string()),
                    _ => None,
                });
                imports.push(json!({"default_local": local.map(|l| ascii(&l)).unwrap_or_else(|| "?".into()),
                                    "path": d.src.value.to_string().split('/').map(ascii).collect::<Vec<_>>()}));
            } else {
                imports.push(json!({"default_local": "?", "path": ["<not an import>"]}));
            }
        }
    }
    let iso_idx = ISO_ITEM as i64 + added.max(0);
    let replaced = body
        .get(iso_idx as usize)
        .and_then(init_of)
        .map(|e| classify(&cm, e, &fn_arg_text, &orig_init))
        .unwrap_or_else(|| json!({"t": "statement-lost"}));
    json!({
        "t": "ok",
        "errors": handler.err_count(),
        "in": in_items.iter().map(|s| ascii(s)).collect::<Vec<_>>(),
        "out": out_items.iter().map(|s| ascii(s)).collect::<Vec<_>>(),
        "iso_item": ISO_ITEM + 1,           // 1-based index into "in"
        "added": added,
        "imports": imports,
        "replaced": replaced,
    })
}

fn parser_reference(literal: &str) -> Value {
    let text = literal.to_string();
    let r = catch_unwind(AssertUnwindSafe(|| {
        parse_iso_literal(
            text,
            "src/verif_case.ts".intern().into(),
            Some("T".to_string()),
            TextSource { relative_path_to_source_file: "src/verif_case.ts".intern().into(), span: None },
        )
    }));
    match r {
        Err(_) => json!({"outcome": "panic", "kind": "none", "ptype": "", "fname": ""}),
        Ok(Err(_)) => json!({"outcome": "diag", "kind": "none", "ptype": "", "fname": ""}),
        Ok(Ok(d)) => {
            let (k, p, f) = match &d {
                IsoLiteralExtractionResult::ClientFieldDeclaration(x) => {
                    ("field", x.item.parent_type.item.to_string(), x.item.client_field_name.item.to_string())
                }
                IsoLiteralExtractionResult::ClientPointerDeclaration(x) => {
                    ("pointer", x.item.parent_type.item.to_string(), x.item.client_pointer_name.item.to_string())
                }
                IsoLiteralExtractionResult::EntrypointDeclaration(x) => {
                    ("entrypoint", x.item.parent_type.item.to_string(), x.item.client_field_name.item.to_string())
                }
            };
            json!({"outcome": "decl", "kind": k, "ptype": ascii(&p), "fname": ascii(&f)})
        }
    }
}

fn main() {
    std::panic::set_hook(Box::new(|_| {}));
    let stdin = std::io::stdin();
    let stdout = std::io::stdout();
    let mut out = stdout.lock();
    for line in stdin.lock().lines() {
        let line = line.expect("stdin");
        if line.trim().is_empty() {
            continue;
        }
        let case: Value = serde_json::from_str(&line).expect("input json");
        let rec = json!({
            "id": case["id"],
            "parser": parser_reference(case["literal"].as_str().unwrap()),
            "obs": project(&case),
        });
        writeln!(out, "{}", rec).unwrap();
        out.flush().unwrap();
    }
}
