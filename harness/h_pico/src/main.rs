//! Conformance harness for the pico engine (C01-C04).
//!
//! stdin : line 1  {"program": {node: expr}, "capacity": n}
//!         then one replay per line {"ops": [op, ...]}
//! stdout: one line per replay {"ops": [op + observed "evs"/"res", ...]}
//!
//! The harness only DRIVES the real crate and LOGS what happened; every verdict is computed by
//! TLC from the TLA+ predicates (spec/pico/PicoA.tla).  The memoized functions below are real
//! `#[memo]` functions with the parameter kinds pico supports (SourceId, owned, borrowed,
//! MemoRef, none; raw and non-raw); their bodies interpret the expression table printed by TLC,
//! so the model's program and the harness's program are the same data.
use std::cell::RefCell;
use std::collections::{BTreeMap, HashMap};
use std::io::{BufRead, Write};
use std::num::NonZeroUsize;
use std::panic::{AssertUnwindSafe, catch_unwind};

use pico::{Database, MemoRef, RetainedQuery, SourceId, Storage, clear_retain, retain};
use pico_macros::{Db, Singleton, Source, memo};
use serde_json::{Value, json};

#[derive(Debug, Clone, PartialEq, Eq, Source)]
pub struct Inp {
    #[key]
    pub key: &'static str,
    pub v: u8,
}

#[derive(Debug, Clone, PartialEq, Eq, Singleton)]
pub struct Sing {
    pub v: u8,
}

#[derive(Default)]
pub struct TMap(pub BTreeMap<&'static str, SourceId<Inp>>);

#[derive(Db)]
pub struct TestDb {
    storage: Storage<Self>,
    #[tracked]
    map: TMap,
}

thread_local! {
    static PROGRAM: RefCell<HashMap<String, Value>> = RefCell::new(HashMap::new());
    static EVS: RefCell<Vec<Value>> = const { RefCell::new(Vec::new()) };
}

fn log(ev: Value) {
    EVS.with(|e| e.borrow_mut().push(ev));
}

fn key_static(k: &str) -> &'static str {
    match k {
        "A" => "A",
        "B" => "B",
        "D" => "D",
        _ => panic!("harness: unknown key {k}"),
    }
}

fn sid(k: &str) -> SourceId<Inp> {
    SourceId::new(&Inp { key: key_static(k), v: 0 })
}

fn key_name(id: SourceId<Inp>) -> &'static str {
    for k in ["A", "B", "D"] {
        if sid(k) == id {
            return k;
        }
    }
    panic!("harness: unknown source id")
}

// ---- the memoized functions ---------------------------------------------------------------

#[memo(raw)]
fn leaf(db: &TestDb, id: SourceId<Inp>) -> u8 {
    run_body(db, &format!("leaf:{}", key_name(id)), None)
}

#[memo(raw)]
fn single(db: &TestDb) -> u8 {
    run_body(db, "single", None)
}

#[memo(raw)]
fn top(db: &TestDb) -> u8 {
    run_body(db, "top", None)
}

#[memo(raw)]
fn tsum(db: &TestDb) -> u8 {
    run_body(db, "tsum", None)
}

#[memo(raw)]
fn outer(db: &TestDb) -> u8 {
    run_body(db, "outer", None)
}

#[memo(raw)]
fn tsum_l(db: &TestDb) -> u8 {
    run_body(db, "tsumL", None)
}

#[memo(raw)]
fn outer_l(db: &TestDb) -> u8 {
    run_body(db, "outerL", None)
}

#[memo(raw)]
fn by_key(db: &TestDb, k: u8) -> u8 {
    run_body(db, &format!("byKey:{k}"), None)
}

#[memo(raw)]
fn by_ref(db: &TestDb, s: &String) -> u8 {
    run_body(db, &format!("byRef:{s}"), None)
}

#[memo(raw)]
fn of_memo(db: &TestDb, r: MemoRef<u8>) -> u8 {
    run_body(db, "ofMemo", Some(r))
}

#[memo]
fn pair(db: &TestDb) -> u8 {
    run_body(db, "pair", None)
}

#[derive(Debug, Clone, PartialEq, Eq)]
pub struct Tup(pub u8, pub String);

/// A value with an interior that `ref_maker` points into.
#[memo(raw)]
fn tup(db: &TestDb) -> Tup {
    let v = run_body(db, "tup", None);
    Tup(v, format!("s{v}"))
}

/// value of an interned "s<digit>" string; 255 for anything else (a dangling MemoRef may read garbage:
/// that is an observation, not a harness failure)
fn str_value(s: &str) -> u8 {
    s.get(1..).and_then(|d| d.parse().ok()).unwrap_or(255)
}

/// Body "refMaker" = MkRef("tup"): `db.intern_ref(&tup(db).1)` (the scenario of intern_ref's doc comment)
#[memo(raw)]
fn ref_maker(db: &TestDb) -> MemoRef<String> {
    log(json!({"e": "enter", "n": "refMaker"}));
    let t: &Tup = tup(db).lookup(db);
    log(json!({"e": "ret", "n": "tup", "v": t.0}));
    let r = db.intern_ref(&t.1);
    log(json!({"e": "exit", "n": "refMaker", "v": t.0, "ins": [["fn", "tup", t.0]]}));
    r
}

/// Body "refUser" = Add(Deref("refMaker"), Const(1))
#[memo(raw)]
fn ref_user(db: &TestDb) -> u8 {
    log(json!({"e": "enter", "n": "refUser"}));
    let r: &MemoRef<String> = ref_maker(db).lookup(db);
    let v = str_value(r.lookup_tracked(db));
    log(json!({"e": "ret", "n": "refMaker", "v": v}));
    log(json!({"e": "exit", "n": "refUser", "v": v + 1, "ins": [["fn", "refMaker", v]]}));
    v + 1
}

mod a {
    use super::*;
    #[memo(raw)]
    pub fn twin(db: &TestDb) -> u8 {
        run_body(db, "twin:a", None)
    }
}

mod b {
    use super::*;
    #[memo(raw)]
    pub fn twin(db: &TestDb) -> u8 {
        run_body(db, "twin:b", None)
    }
}

#[derive(Clone, Copy)]
enum Ref {
    U8(MemoRef<u8>),
    Tup(MemoRef<Tup>),
    Str(MemoRef<MemoRef<String>>),
}

impl Ref {
    fn read(&self, db: &TestDb) -> u8 {
        match self {
            Ref::U8(r) => *r.lookup(db),
            Ref::Tup(r) => r.lookup(db).0,
            Ref::Str(r) => str_value(r.lookup(db).lookup(db)),
        }
    }
    fn retain(&self, db: &TestDb) -> RetainedQuery {
        match self {
            Ref::U8(r) => retain(db, *r),
            Ref::Tup(r) => retain(db, *r),
            Ref::Str(r) => retain(db, *r),
        }
    }
    fn as_u8(&self) -> Option<MemoRef<u8>> {
        if let Ref::U8(r) = self { Some(*r) } else { None }
    }
}

/// Twins generated by ONE macro_rules! invocation: identical signature text, and file!() / line!() / column!()
/// all resolve to the single invocation site; only the module path tells them apart.
macro_rules! generated_twins {
    ($($m:ident => $node:literal),*) => {
        $(
            mod $m {
                use super::*;
                #[memo(raw)]
                pub fn twin(db: &TestDb) -> u8 {
                    run_body(db, $node, None)
                }
            }
        )*
    };
}
generated_twins!(c => "twin:c", d => "twin:d");

/// Calls the memoized function for node `n`; returns (value, MemoRef if the function is raw).
fn call_node(db: &TestDb, n: &str, memo_arg: Option<MemoRef<u8>>) -> (u8, Option<Ref>) {
    match n {
        "tup" => {
            let r = Ref::Tup(tup(db));
            return (r.read(db), Some(r));
        }
        "refMaker" => {
            let r = Ref::Str(ref_maker(db));
            return (r.read(db), Some(r));
        }
        _ => {}
    }
    let r: MemoRef<u8> = match n {
        "leaf:A" | "leaf:B" | "leaf:D" => leaf(db, sid(&n[5..])),
        "single" => single(db),
        "top" => top(db),
        "tsum" => tsum(db),
        "outer" => outer(db),
        "tsumL" => tsum_l(db),
        "outerL" => outer_l(db),
        "byKey:0" => by_key(db, 0),
        "byKey:1" => by_key(db, 1),
        "byRef:x" => by_ref(db, &"x".to_string()),
        "ofMemo" => of_memo(db, memo_arg.expect("harness: ofMemo needs its MemoRef argument")),
        "pair" => return (*pair(db), None),
        "twin:a" => a::twin(db),
        "twin:b" => b::twin(db),
        "twin:c" => c::twin(db),
        "twin:d" => d::twin(db),
        "refUser" => ref_user(db),
        _ => panic!("harness: unknown node {n}"),
    };
    (*r.lookup(db), Some(Ref::U8(r)))
}

// ---- the body interpreter -------------------------------------------------------------------

struct Frame {
    ins: Vec<Value>,
    memo_arg: Option<MemoRef<u8>>,
}

fn run_body(db: &TestDb, name: &str, memo_arg: Option<MemoRef<u8>>) -> u8 {
    log(json!({"e": "enter", "n": name}));
    let expr = PROGRAM.with(|p| p.borrow().get(name).cloned()).unwrap_or_else(|| panic!("harness: no body for {name}"));
    let mut frame = Frame { ins: vec![], memo_arg };
    let v = eval(db, &expr, &mut frame);
    log(json!({"e": "exit", "n": name, "v": v, "ins": frame.ins}));
    v as u8
}

fn eval(db: &TestDb, e: &Value, f: &mut Frame) -> i64 {
    match e["t"].as_str().unwrap() {
        "const" => e["v"].as_i64().unwrap(),
        "src" => {
            let k = e["k"].as_str().unwrap();
            let v = db.get(sid(k)).v as i64;
            f.ins.push(json!(["src", k, v]));
            v
        }
        "sing" => {
            let seen = db.get_singleton::<Sing>().map(|s| s.v as i64);
            f.ins.push(json!(["src", "S", seen.unwrap_or(-1)]));
            seen.unwrap_or(0)
        }
        "fn" => {
            let m = e["m"].as_str().unwrap();
            let (v, _) = call_node(db, m, None);
            f.ins.push(json!(["fn", m, v]));
            log(json!({"e": "ret", "n": m, "v": v}));
            v as i64
        }
        "look" => {
            let m = e["m"].as_str().unwrap();
            let v = *f.memo_arg.expect("harness: look without MemoRef").lookup_tracked(db);
            f.ins.push(json!(["fn", m, v]));
            log(json!({"e": "ret", "n": m, "v": v}));
            v as i64
        }
        "add" => {
            let a = eval(db, &e["a"], f);
            let b = eval(db, &e["b"], f);
            a + b
        }
        "half" => eval(db, &e["a"], f) / 2,
        "if1" => {
            if eval(db, &e["c"], f) == 1 {
                eval(db, &e["x"], f)
            } else {
                eval(db, &e["y"], f)
            }
        }
        "tsum" => {
            f.ins.push(json!(["src", "C", 0]));
            let mut sum = 0i64;
            let ids: Vec<(&'static str, SourceId<Inp>)> =
                db.get_map().tracked().0.iter().map(|(k, id)| (*k, *id)).collect();
            for (k, id) in ids {
                let v = db.get(id).v as i64;
                f.ins.push(json!(["src", k, v]));
                sum += v;
            }
            sum
        }
        "tsumL" => {
            // the memoized per-key function under a tracked map (isograph: parse_iso_literal_in_source per file)
            f.ins.push(json!(["src", "C", 0]));
            let mut sum = 0i64;
            let ids: Vec<&'static str> = db.get_map().tracked().0.iter().map(|(k, _)| *k).collect();
            for k in ids {
                let m = format!("leaf:{k}");
                let (v, _) = call_node(db, &m, None);
                f.ins.push(json!(["fn", m, v]));
                log(json!({"e": "ret", "n": m, "v": v}));
                sum += v as i64;
            }
            sum
        }
        other => panic!("harness: unknown expression {other}"),
    }
}

// ---- the driver -----------------------------------------------------------------------------

fn prelude(n: &str) -> Vec<&'static str> {
    if n == "ofMemo" { vec!["leaf:B"] } else { vec![] }
}

struct Session {
    db: TestDb,
    refs: HashMap<String, Ref>,
    retained: HashMap<String, Vec<RetainedQuery>>,
}

impl Session {
    fn new(capacity: usize) -> Self {
        Session {
            db: TestDb {
                storage: Storage::new_with_capacity(NonZeroUsize::new(capacity).unwrap()),
                map: TMap::default(),
            },
            refs: HashMap::new(),
            retained: HashMap::new(),
        }
    }

    /// the user-level call protocol of node n (prelude calls provide MemoRef arguments)
    fn user_call(&mut self, n: &str) -> u8 {
        let mut arg = None;
        for p in prelude(n) {
            log(json!({"e": "ucall", "n": p}));
            let (v, r) = call_node(&self.db, p, None);
            log(json!({"e": "ret", "n": p, "v": v}));
            if let Some(r) = r {
                self.refs.insert(p.to_string(), r);
            }
            arg = r.and_then(|r| r.as_u8());
        }
        log(json!({"e": "ucall", "n": n}));
        let (v, r) = call_node(&self.db, n, arg);
        log(json!({"e": "ret", "n": n, "v": v}));
        if let Some(r) = r {
            self.refs.insert(n.to_string(), r);
        }
        v
    }

    fn step(&mut self, op: &Value) -> Value {
        let kind = op["op"].as_str().unwrap();
        let mut out = op.as_object().unwrap().clone();
        out.remove("evs");
        out.remove("res");
        EVS.with(|e| e.borrow_mut().clear());
        let res = catch_unwind(AssertUnwindSafe(|| -> Option<i64> {
            match kind {
                "set" => {
                    let k = op["k"].as_str().unwrap();
                    let v = op["v"].as_u64().unwrap() as u8;
                    if k == "S" {
                        self.db.set(Sing { v });
                    } else {
                        self.db.set(Inp { key: key_static(k), v });
                    }
                    None
                }
                "remove" => {
                    let k = op["k"].as_str().unwrap();
                    if k == "S" {
                        self.db.remove_singleton::<Sing>();
                    } else {
                        self.db.remove(sid(k));
                    }
                    None
                }
                "minsert" => {
                    let k = key_static(op["k"].as_str().unwrap());
                    self.db.get_map_mut().tracked().0.insert(k, sid(k));
                    None
                }
                "mremove" => {
                    let k = key_static(op["k"].as_str().unwrap());
                    self.db.get_map_mut().tracked().0.remove(k);
                    None
                }
                "call" => Some(self.user_call(op["n"].as_str().unwrap()) as i64),
                "retain" => {
                    let n = op["n"].as_str().unwrap();
                    let v = self.user_call(n);
                    let r = *self.refs.get(n).expect("harness: retain needs a raw node");
                    let rq = r.retain(&self.db);
                    self.retained.entry(n.to_string()).or_default().push(rq);
                    Some(v as i64)
                }
                "clear" => {
                    let n = op["n"].as_str().unwrap();
                    let rq = self.retained.get_mut(n).and_then(|v| v.pop()).expect("harness: nothing retained");
                    clear_retain(&self.db, rq);
                    None
                }
                "gc" => {
                    self.db.run_garbage_collection();
                    Some(0)
                }
                "lookup" => {
                    let n = op["n"].as_str().unwrap();
                    let r = *self.refs.get(n).expect("harness: lookup needs a MemoRef");
                    Some(r.read(&self.db) as i64)
                }
                other => panic!("harness: unknown op {other}"),
            }
        }));
        let evs = EVS.with(|e| std::mem::take(&mut *e.borrow_mut()));
        match res {
            Ok(v) => {
                if matches!(kind, "call" | "retain") {
                    out.insert("evs".into(), Value::Array(evs));
                }
                if let Some(v) = v {
                    out.insert("res".into(), json!({"t": "val", "v": v}));
                }
            }
            Err(p) => {
                let msg = p
                    .downcast_ref::<String>()
                    .cloned()
                    .or_else(|| p.downcast_ref::<&str>().map(|s| s.to_string()))
                    .unwrap_or_default();
                if msg.starts_with("harness:") {
                    eprintln!("HARNESS-ERROR {msg}");
                    std::process::exit(3);
                }
                if matches!(kind, "call" | "retain") {
                    out.insert("evs".into(), Value::Array(evs));
                }
                out.insert("res".into(), json!({"t": "panic"}));
                out.insert("panic_msg".into(), Value::String(msg.chars().filter(|c| c.is_ascii()).take(160).collect()));
            }
        }
        Value::Object(out)
    }
}

impl Drop for Session {
    fn drop(&mut self) {
        for (_, v) in self.retained.drain() {
            for rq in v {
                rq.never_garbage_collect();
            }
        }
    }
}

fn main() {
    std::panic::set_hook(Box::new(|_| {}));
    if std::env::var("H_PICO_TRACE").is_ok() {
        tracing_subscriber::fmt().with_max_level(tracing::Level::TRACE).with_writer(std::io::stderr).without_time().init();
    }
    let stdin = std::io::stdin();
    let stdout = std::io::stdout();
    let mut out = std::io::BufWriter::new(stdout.lock());
    let mut capacity = 1usize;
    // --markers: announce every replay / operation before running it, so that a driver can attribute a
    // process death or a memory-checker abort (valgrind --exit-on-first-error) to the operation in progress
    let markers = std::env::args().any(|a| a == "--markers");
    for line in stdin.lock().lines() {
        let line = line.unwrap();
        if line.trim().is_empty() {
            continue;
        }
        let v: Value = serde_json::from_str(&line).expect("bad json");
        if let Some(p) = v.get("program") {
            PROGRAM.with(|pr| {
                let mut pr = pr.borrow_mut();
                pr.clear();
                for (k, e) in p.as_object().unwrap() {
                    pr.insert(k.clone(), e.clone());
                }
            });
            capacity = v["capacity"].as_u64().unwrap_or(1) as usize;
            continue;
        }
        let mut sess = Session::new(capacity);
        let mut obs = vec![];
        for (opi, op) in v["ops"].as_array().unwrap().iter().enumerate() {
            if markers {
                writeln!(out, "{}", json!({"begin": v.get("id").cloned().unwrap_or(Value::Null), "op": opi})).unwrap();
                out.flush().unwrap();
            }
            let o = sess.step(op);
            let dead = o["res"]["t"] == "panic";
            obs.push(o);
            if dead {
                break;
            }
        }
        // a poisoned database may panic again while being dropped; that is not an observation
        let _ = catch_unwind(AssertUnwindSafe(move || drop(sess)));
        let mut res = json!({"ops": obs});
        if let Some(id) = v.get("id") {
            res["id"] = id.clone();
        }
        writeln!(out, "{}", res).unwrap();
        if markers {
            out.flush().unwrap();
        }
    }
    out.flush().unwrap();
}
